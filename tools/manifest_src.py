SETUP = ('/venv/bin/python -c "import hypothesis" 2>/dev/null || /venv/bin/pip install --no-index --find-links /opt/veriftools/wheels hypothesis; '
         '/venv/bin/python -c "import sys; sys.path.append(\'.deps\'); import atheris" 2>/dev/null || /venv/bin/pip install -q --no-index --find-links /opt/veriftools/wheels --target .deps atheris; '
         'mkdir -p evidence replays')
HOOKS = {
    'guard': 'PYWORKERS_VERIF',
    'enable': 'no source hooks in /repo: checks import pyworkers from the working tree named by VERIF_REPO (default /repo); '
              'injection rides on harness/site/sitecustomize.py via PYTHONPATH and is active only when VERIF_INJECT_DIR is set',
    'baseline_off_cmd': 'cd /repo && /venv/bin/python -m pytest -ra -q -p no:cacheprovider --timeout=900 --continue-on-collection-errors',
    'source_commits': [],
    'add_only': True,
}
ENGINES = [
    {'name': 'WIRE', 'path': 'harness/props/c10.py', 'serves_properties': ['C10'],
     'kind_free_text': 'scripted sockets: real send_msg/recv_msg over generated segmentation/truncation plans (Hypothesis + exhaustive short streams)'},
]
ENGINES.append({'name': 'POOLSIM', 'path': 'harness/poolsim.py', 'serves_properties': ['C07', 'C08'],
                'kind_free_text': 'fake workers speaking the real result-pipe protocol + tape-driven deterministic scheduler behind the real Pool.run; '
                                  'Hypothesis tapes and exhaustive stateless DFS of small configurations; conformance traces against real workers'})
NOTES = 'Runner: ./check <ID> --tier quick|thorough [--replay f]; exit 0 held, 1 VIOLATION, 2 harness error. See DESIGN.md.'

CHECKS = {
    'C10': {
        'engine': 'WIRE', 'level': 'exploration', 'design_ref': 'DESIGN.md 3.3, 4 (C10)',
        'technique': 'property-based testing (Hypothesis) + exhaustive enumeration of short streams; round-trip and truncation oracle over a scripted socket + coverage-guided fuzzing stage (atheris/libFuzzer mutating the byte string the same Hypothesis strategy draws from, pyworkers instrumented, same oracle)',
        'text': 'Generated message sequences are written by the real send_msg and read back by the real recv_msg through a scripted socket that '
                'cuts the stream according to a generated plan; every composition of the 8-byte and 16-byte streams and every truncation offset '
                'of them is enumerated, longer streams get boundary-relative cuts, payload sizes around multiples of 64 KiB are enumerated, the stream may end by FIN, RST, ETIMEDOUT or ECONNABORTED; the sending side is additionally run over transports whose send/sendmsg accept only q bytes per call (same byte stream required). The oracle is the round trip plus "truncation => ConnectionClosedError, '
                'never a value, never a spin". Exploration, not proof: long streams are sampled.',
        'note': 'Trusts the socket model (recv returns 1..n bytes, b"" at EOF, ConnectionResetError on RST); real kernels are not in the loop.',
    },
}
CHECKS['C07'] = {
    'engine': 'POOLSIM', 'level': 'exploration', 'design_ref': 'DESIGN.md 3.2, 4 (C07)',
    'technique': 'property-based testing: Hypothesis-generated schedule tapes + exhaustive DFS of all schedules of small pool configurations, reference multiset oracle + coverage-guided fuzzing stage (atheris/libFuzzer mutating the byte string the same Hypothesis strategy draws from, pyworkers instrumented, same oracle)',
    'text': 'The real Pool.run is executed against simulated workers whose every progress/death/ready-order decision is taken from a generated tape; '
            'all schedules of small configurations (<=3 workers, <=3 inputs, 1 kill; also with equal input items, a transient enqueue failure, a dead worker still reporting is_alive()) are enumerated exhaustively, larger ones are sampled. Oracle: the run '
            'ends by return or PoolError (no internal error, no deadlock, no livelock) and, with retry, the results are exactly the multiset f(inputs).',
    'note': 'Trusts that the simulated workers follow the real result-pipe protocol (checked every run by trace equivalence with real thread/process/remote '
            'workers) and that Pool yields control only at enqueue and wait.',
}
CHECKS['C08'] = {
    'engine': 'POOLSIM', 'level': 'exploration', 'design_ref': 'DESIGN.md 3.2, 4 (C08)',
    'technique': 'property-based testing over schedule tapes with an event-log oracle (who was handed what, who answered, who died) + coverage-guided fuzzing stage (atheris/libFuzzer mutating the byte string the same Hypothesis strategy draws from, pyworkers instrumented, same oracle)',
    'text': 'Same simulated schedule space as C07 with retry and return_results on/off. From the scheduler log the oracle decides: PoolError only when no live '
            'worker would take the unfinished inputs; partial/returned results are genuine and at most one per input; with retry off every missing input was '
            'handed (or being handed) to a worker that died without answering it; return_results=False returns None.',
    'note': 'Two open known findings (refusing enqueue_fn) are matched by symptom+trigger; same trusted base as C07.',
}
ENGINES.append({'name': 'GRAPH', 'path': 'harness/graphs.py', 'serves_properties': ['C13', 'C14', 'C15'],
                'kind_free_text': 'class menu (opt-in classes with plain twins), JSON graph specs with back references and cycle links, canonicaliser, '
                                  '__getstate__/__setstate__ call log; differential oracle against the standard pickle module'})
CHECKS['C13'] = {
    'engine': 'GRAPH', 'level': 'exploration', 'design_ref': 'DESIGN.md 3.4, 4 (C13)',
    'technique': 'property-based differential testing against the standard pickle module over generated object graphs; enumerated class-definition programs for the inconsistency rule + coverage-guided fuzzing stage (atheris/libFuzzer mutating the byte string the same Hypothesis strategy draws from, pyworkers instrumented, same oracle)',
    'text': 'Generated graphs (plain classes, stdlib values, sharing, cycles) are round-tripped through remote_pickle and through pickle and compared by a '
            'canonical form that captures sharing; opt-in graphs are checked with remote=False; pickle/copy/deepcopy/ForkingPickler are checked to never see '
            'the flag after remote pickling; all 1-3 level inheritance chains over {no/plain/remote/**kwargs __getstate__, __reduce__} are enumerated '
            'against a reference consistency rule (an inconsistent class must be rejected on every attempt). Pickle protocols 0-5.',
    'note': 'One open finding (protocols 0/1 with a false state, F-C13-5). Canonical form trusts repr() for opaque stdlib values; class menu is fixed (18 opt-in classes with twins - incl. keyword-only constructor arguments, a __setattr__ hook, decorated __getstate__ - and 12 plain classes incl. two that merely derive from the marker base).',
}
CHECKS['C14'] = {
    'engine': 'GRAPH', 'level': 'exploration', 'design_ref': 'DESIGN.md 3.4, 4 (C14)',
    'technique': 'property-based testing with a twin-class reference model evaluated by the standard pickle module; call-log invariant (exactly one __getstate__(remote=True)) + coverage-guided fuzzing stage (atheris/libFuzzer mutating the byte string the same Hypothesis strategy draws from, pyworkers instrumented, same oracle)',
    'text': 'Graphs with 0-10 opt-in instances from a generated grammar plus an enumerated shape grammar (siblings 1-3, containers, chains, shared, cycles) are dumped '
            'and loaded; the oracle is the call log (one remote __getstate__ per serialised opt-in instance) and equality of canonical shape with the standard '
            'round trip of a twin graph whose plain classes return the remote state.',
    'note': 'Three open findings (sibling/shared/cyclic direct children; None remote state; protocols 0/1 with a false state) are matched by structural trigger predicates computed from the input graph.',
}
CHECKS['C15'] = {
    'engine': 'GRAPH', 'level': 'exploration', 'design_ref': 'DESIGN.md 3.4, 4 (C15)',
    'technique': 'property-based testing against reference patch semantics (twin graph + standard pickle), metamorphic fresh-thread comparison, barrier-forced concurrent loads + coverage-guided fuzzing stage (atheris/libFuzzer mutating the byte string the same Hypothesis strategy draws from, pyworkers instrumented, same oracle)',
    'text': 'Patch dictionaries derived from the generated graph are applied by remote_pickle.loads and by a reference model; every node of the result must '
            'canonicalise as the reference says (so no other object is touched); the same call after a history of plain/patched/truncated/raising loads must equal '
            'the fresh-thread result; 2-4 threads are held inside their loads simultaneously with distinct patch values.',
    'note': 'Patches addressing non-dict states are excluded (undefined by the property); three open findings matched by structural triggers.',
}
ENGINES.append({'name': 'INJECT', 'path': 'harness/site/verif_inject.py', 'serves_properties': ['C01', 'C03', 'C06', 'C16', 'C17', 'C20'],
                'kind_free_text': 'sitecustomize line tracer injected into every child through PYTHONPATH: lands the real terminate()/a signal/a pause at the '
                                  'n-th traced line of the work thread, of the parent-side forwarding thread of a remote worker or of the child-side control thread of a process worker; '
                                  'harness-side rendezvous files, per-scenario census, AST region classification'})
ENGINES.append({'name': 'FAKEHOST', 'path': 'harness/fakehost.py', 'serves_properties': ['C04', 'C06'],
                'kind_free_text': 'a remote host played by the harness over real TCP sockets: speaks the server+child side of the protocol for one worker, answers k inputs and then '
                                  'vanishes (control connection reset / closed / silent, data connection silent for ever)'})
CHECKS['C01'] = {
    'engine': 'INJECT', 'level': 'fault_enumeration', 'design_ref': 'DESIGN.md 3.1, 4 (C01)',
    'technique': 'fault injection at generated/enumerated line-level landing points (Hypothesis-chosen index into a per-scenario census) with a scenario-derived outcome oracle',
    'text': 'Real workers of all six classes are run with a generated ending: own return/exception (incl. BaseException and untransferable exceptions), graceful '
            'terminate landing at the n-th traced line of the child run loop, SIGKILL/SIGTERM at the n-th line, external SIGKILL while blocked sending a 0.3-4 MB '
            'result, a result that is slow to unpickle observed through wait(t) polling, a final user_state or a partial result that the parent cannot rebuild. After death a generated script of repeated reads must show one of the two legal shapes with an error allowed by the scenario, and never '
            'change, raise or block. Every landing index is enumerated for thread/process one-shot workers in the quick tier.',
    'note': 'Line granularity (not opcode); landings inside stdlib frames are represented by the calling pyworkers line; one open finding (process except-handler window).',
}
CHECKS['C03'] = {
    'engine': 'INJECT', 'level': 'fault_enumeration', 'design_ref': 'DESIGN.md 3.1, 4 (C03)',
    'technique': 'fault injection: the real terminate() is made to land at a generated line of the child (incl. inside the target try body, its finally, the bookkeeping after it, the except handler), outcome + finally-marker oracle',
    'text': 'For all six classes the child is held at its n-th traced line, the real terminate(timeout=5, force=False) travels the real control path and the '
            'exception surfaces at that line. Oracle: terminate returns True, worker dead, outcome = terminated shape or own outcome; delivery inside the target '
            'try body requires the terminated shape and the finally marker written by the worker thread. An endless target makes a lost exception visible as '
            'terminate returning False. Idle persistent workers are terminated uninstrumented, and with the child-side control thread (which receives the request, injects the '
            'exception and acknowledges) held at a generated line for a moment.',
    'note': 'Line granularity for all kinds (CPython 3.12.1 does not deliver opcode events to non-main threads reliably, see DESIGN.md 6); one open finding (process except-handler window, shared with C01).',
}
CHECKS['C06'] = {
    'engine': 'INJECT', 'level': 'fault_enumeration', 'design_ref': 'DESIGN.md 3.1, 4 (C06)',
    'technique': 'fault injection (terminate / SIGKILL / SIGTERM at a generated line of the persistent child loop, poison items, forced kill of a stuck child, a remote host that vanishes) with a prefix oracle on the result stream read by a consumer that starts before or after the death',
    'text': 'Persistent workers of the three kinds get 0-5 items and an ending landing at a generated line of do_work/_send_result/_cleanup/_run; the values '
            'read after death must be a prefix of the expected sequence, the stream must end (queue.Empty / iterator stops / marker or EOF on a caller-supplied pipe) '
            'and raw counters must be consecutive. The consumer either reads after the death or is already iterating results_iter() (blocked in next_result()) when the end comes; '
            'inputs may override a default by keyword; a child stuck in an item that swallows the termination exception is ended by the forced part of terminate(); a fake remote host '
            'vanishes after k answers.',
    'note': 'The parent-side forwarding thread of the remote kind is held at a generated line while the child is SIGKILLed (terminate/target-exception landings there are not enumerated); two open findings with one root cause (thread kind: end marker skipped when terminate lands in the finally block).',
}
CHECKS['C16'] = {
    'engine': 'INJECT', 'level': 'exploration', 'design_ref': 'DESIGN.md 4 (C16)',
    'technique': 'property-based testing over generated incarnation chains with a pause/terminate injector and a last-assigned-value reference model',
    'text': 'Stateful subclasses of all six classes assign generated values to user_state; endings return/raise/terminate@n; the parent reads user_state, has_error, '
            'result in a generated order; chains of up to three incarnations pass the state on by re-creation or restart(); a paused child lets the parent read '
            'during the alive phase. Late-phase cases hold the child right after it handed over its final result (process kinds) or the parent-side forwarding thread between '
            'final result and final state (remote kinds) while the parent calls wait(t) and reads: init_state until something reported the worker dead, the last assigned value afterwards. '
            'Also: restart() of a persistent worker that is still busy, and a process worker that returns something unsendable after assigning its state.',
    'note': 'For terminate endings any prefix of the assignments is accepted as final state (the exact cut is not pinned).',
}
CHECKS['C20'] = {
    'engine': 'WIRE', 'level': 'fault_enumeration', 'design_ref': 'DESIGN.md 3.3, 4 (C20)',
    'technique': 'fault enumeration over the server-to-client handshake (every byte offset of the control-address message, sampled offsets of the runtime-info message, FIN/RST, refusal, silence) with a scripted peer, plus child self-kill at enumerated pre-identity lines; hang-guard oracle + process census',
    'text': 'A scripted peer plays the server side of the RemoteWorker handshake and fails it at a generated point; process/remote children kill themselves at the '
            'n-th traced line before reporting their identity; unknown context ids, unreachable ports and work that cannot be serialised (lock / socket in the arguments or initial state, lambda or local function as target), work that the server side cannot rebuild (with and without a context) and a main script that misbehaves when re-run in the backend child are tried. The constructor must return a worker with a '
            'foreign pid that answers wait(), or raise, within 15 s, and no process tagged with the case may survive a failed construction.',
    'note': '15 s is the hang bound; the server being killed at each step is represented by the peer dropping both connections.',
}
CHECKS['C11'] = {
    'engine': 'WIRE', 'level': 'fault_enumeration', 'design_ref': 'DESIGN.md 3.3, 4 (C11)',
    'technique': 'fault enumeration: recorded real client byte streams replayed by raw sockets cut at generated offsets (FIN/RST/garbage) and failing control-channel steps, sequences of 1-4 faulty clients; liveness + fresh round-trip + concurrent healthy worker oracle',
    'text': 'The data-connection streams of five request kinds are recorded from the real client code (socket tee) and replayed by faulty clients against a real '
            'server (every second shard starts it with close_on_none=True, as run_server() and the command line do); after each sequence the server must be alive, serve a fresh RemoteWorker correctly and must not have disturbed a concurrently running healthy worker.',
    'note': 'Clients that stay connected but silent forever are not modelled; quick tier samples offsets (message boundaries +-1, first 14 bytes, random), thorough enumerates every offset up to 1500.',
}
ENGINES.append({'name': 'OS', 'path': 'harness/injcases.py', 'serves_properties': ['C02', 'C04', 'C05', 'C09', 'C12', 'C17', 'C18', 'C19'],
                'kind_free_text': 'real workers/servers under observation: hang guard, /proc environment-tag process census, per-shard server fixture, importable targets, main-script template'})
CHECKS['C02'] = {
    'engine': 'OS', 'level': 'exploration', 'design_ref': 'DESIGN.md 3.5, 4 (C02)',
    'technique': 'property-based differential testing: generated target/arguments run on thread, process and remote workers and as a direct call (reference), incl. boundary sizes around the pipe buffer and main-script classes',
    'text': 'Each generated case is executed by the three kinds (constructor or Worker.create, run None/True/False, target None) and compared with the direct call: '
            'value equality for results, type+args for exceptions, (False, None, None) and no new process for not-run workers; wait() is called without a timeout '
            'under a 40 s hang guard so the big-result deadlock is a visible outcome.',
    'note': '== on generated values (no NaN); main-script cases run a real script as a subprocess (a few per run).',
}
CHECKS['C04'] = {
    'engine': 'OS', 'level': 'exploration', 'design_ref': 'DESIGN.md 3.5, 4 (C04)',
    'technique': 'property-based testing over generated call histories (wait/terminate/is_alive/close x timeouts x force) on cooperative, exception-swallowing, sleeping, GIL-holding, SIGSTOPped and lingering children and on a remote host that vanished; time-bound + OS-liveness oracle',
    'text': 'Real workers run one of ten behaviours (incl. a child stopped half way through sending a result bigger than the pipe buffer, a stopped child that is continued between or during calls, and one against a remote host played by the harness that resets / closes / silences its control connection and goes silent on the data connection); a generated history of up to four calls is applied and every call is judged: bounded duration '
            '(3*timeouts + 10 s), True only if the worker and its child pid are gone, immediate True on dead / finished / not-run workers, forced terminate of '
            'process/remote children always succeeds, False only while the child exists, and no signal to the caller.',
    'note': 'This is the one property where wall-clock is the verdict; the bound only separates bounded from blocked. Thread kinds are limited to cooperative/swallowing targets with force=False. One open finding (host silent on both connections).',
}
CHECKS['C05'] = {
    'engine': 'OS', 'level': 'exploration', 'design_ref': 'DESIGN.md 4 (C05)',
    'technique': 'model-based property testing: generated operation sequences (enqueue / next_result / call / close / wait / late enqueue / read past end) on real persistent workers checked step by step against a 15-line reference model of the merge rule and the result stream',
    'text': 'Persistent thread/process/remote workers with generated list-or-tuple defaults and kwargs run an argument-echoing, argument-mutating target; every value '
            'read is compared with the reference model on pristine deep copies, the stream after wait() must be exactly the remaining results then queue.Empty forever, '
            'result == accepted == delivered, enqueue after close - or after the worker died on its own, observed through the OS only - raises WorkerClosedError; gated schedules deliver the last result exactly before / after the k-th read and hold the child thread before _init_child() while the parent already closes / enqueues.',
    'note': 'Op lists are interpreted against model preconditions (inapplicable ops are skipped) instead of Hypothesis rule-based machines, so a case is a plain replayable JSON list; wait() with unread 1 MiB results is excluded (documented deadlock).',
}
CHECKS['C17'] = {
    'engine': 'OS', 'level': 'exploration', 'design_ref': 'DESIGN.md 4 (C17)',
    'technique': 'property-based testing over generated pre-restart states (fresh, unread results, queued inputs, closed, dead by exception, SIGKILLed, stuck) x 1-3 restarts x results-pipe flavour with an equivalence oracle on the new incarnation',
    'text': 'Each generated case drives a real persistent worker into a state, calls restart(timeout=0.5) up to three times and checks the new incarnation: alive, same '
            'name/userid/defaults, new id and old pid gone, call(x) returns the value for x (no stale result), counter restarts from zero; a thread worker stuck in an '
            'uncooperative target must raise RuntimeError and keep tracking its thread. Two more case kinds: Pool.restart_workers() over a pool that contains such an unstoppable worker (the pool must '
            'still hold every worker afterwards), restart() of a remote worker whose old forwarding thread is held while it forwards its last result (restart raises or the new stream never shows it), '
            'an unreadable result followed by a stuck input as pre-restart state, and an enumeration of the registry while the worker is down.',
    'note': 'States are reached with short sleeps; the oracle does not depend on them (every legal pre-state is accepted).',
}
CHECKS['C19'] = {
    'engine': 'OS', 'level': 'exploration', 'design_ref': 'DESIGN.md 4 (C19)',
    'technique': 'model-based property testing: generated operation lists (create/release/terminate/restart/concurrent active_children() spelled through Worker, a subclass or an instance/autoclose blocks/creation bursts/running workers the caller keeps no reference to/an exception surfacing inside is_alive() during the enumeration/a process child that dies before reporting its identity) against the model set of live workers, plus weak-reference retention check',
    'text': 'All six classes are created, finished, terminated and restarted in generated order; every active_children() call (also from 2-3 threads at once) must yield '
            'exactly the workers whose is_alive() is True, once each; finished workers must become garbage after a further call; leaving autoclose_active_children() '
            'must leave every registered worker dead and its child process gone.',
    'note': 'The per-shard server fixture is a registered ProcessWorker and is part of the model (autoclose blocks kill it; it is restarted on demand).',
}
CHECKS['C12'] = {
    'engine': 'OS', 'level': 'exploration', 'design_ref': 'DESIGN.md 4 (C12)',
    'technique': 'property-based testing over generated server populations (0-4 children in mixed states, contexts) x stop method x delay, with a process-census and parent-outcome oracle',
    'text': 'A private real server per case gets a generated mix of cooperative / exception-swallowing / idle / busy / finished / in-context children and contexts, '
            'is stopped by terminate(), terminate(force=False), terminate(timeout=0.5) (whose force stage SIGTERMs the server while it is still stopping its children), terminate() followed by a SIGTERM after a generated delay, or SIGTERM, and within 10 s every process started for the case must be gone and every parent-side '
            'worker must be dead with has_error True (finished ones unchanged) without any parent call blocking.',
    'note': 'WorkerTerminatedError is demanded only in the all-cooperative, graceful, past-start-up configuration; stop during worker start-up is sampled by delay 0 only.',
}
CHECKS['C18'] = {
    'engine': 'OS', 'level': 'exploration', 'design_ref': 'DESIGN.md 4 (C18)',
    'technique': 'model-based property testing: generated operation lists over context ids against a dictionary model of the server context table, with server health probes and a process census',
    'text': 'create / duplicate create / delete / delete-unknown / start worker / start worker in unknown context / enqueue (optionally overriding the context default by keyword, followed by a call without it) / wait are generated over ids 1-3 on a real '
            'server; ValueError on taken ids, first registration stays in force, results equal the context target with its defaults, delete ends workers and frees '
            'the id, the server stays healthy and no process started during the case survives deleting everything.',
    'note': 'Each case runs on the shard server (restarted when a case breaks it).',
}
CHECKS['C09'] = {
    'engine': 'POOLSIM', 'level': 'exploration', 'design_ref': 'DESIGN.md 3.2, 3.5, 4 (C09)',
    'technique': 'property-based testing over pool histories: tape-scheduled simulated pools (runs / restart_workers / kills / add_worker between runs) with a per-run multiset and liveness oracle, plus generated histories on real mixed pools with a process-census oracle at pool exit',
    'text': 'Bookkeeping part: thousands of multi-run histories on simulated workers (incl. dead workers that still report is_alive() for one more run, runs aborted by an exception from their input source, runs that start without any live worker) check that each run returns exactly its own inputs, that PoolError needs all '
            'workers dead also after restarts, that known-dead workers get no work and restarted ones do. OS part: real thread/process/remote pools with SIGKILLed, '
            'stuck, attached, failing-to-register workers and workers whose work failed during a run while their process lingers are left normally, by exception, close(), terminate() or a close() interrupted by KeyboardInterrupt inside the with-block under varied close_timeout/force, after which '
            'no process of the pool may survive (unless forced termination was disabled and a worker is stuck).',
    'note': 'The OS part is small in the quick tier (about 220 histories); a stuck worker disables later run/restart steps (it violates run()\'s premise).',
}
NOT_APPLICABLE = {}

# ---- round-4 generator extensions (DESIGN.md 7.5, Round 4)
CHECKS['C01']['text'] += ' Persistent items include a partial result the child cannot serialise (the pickling TypeError must be the reported outcome).'
CHECKS['C02']['text'] += ' Alternatively the parent polls wait(5) or `while not wait(t)` with t in {0, 1 ms, 10 ms}, so that timed waits expire while a large result is still travelling.'
CHECKS['C03']['text'] += ' A further generator focuses the landing on the frames of the child that put a message on the wire (send_msg, _send_result, put), with partial results up to 100 kB for the remote kind.'
CHECKS['C06']['text'] += ' A persistent process child is SIGKILLed from outside while it is blocked writing an 8 MiB partial result.'
CHECKS['C07']['text'] += (' One generated case in eight is a multi-run history on one pool (restarts, kills, additions, runs with a refusing enqueue_fn), each run judged for '
                          'termination and its own multiset. A coverage-guided stage mutates the same strategy under branch coverage of pool.py.')
CHECKS['C09']['text'] += ' Histories include runs with a refusing enqueue_fn and a restart_workers() that fails on an unstoppable worker.'
CHECKS['C17']['text'] += ' With the forwarding thread held, close/wait/terminate/restart calls that already find the remote child gone may precede the judged restart.'
CHECKS['C18']['text'] += ' A start-worker request that the context helper cannot rebuild must leave the context, its workers and the server usable.'
