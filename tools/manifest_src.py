SETUP = ('/venv/bin/python -c "import hypothesis" 2>/dev/null || /venv/bin/pip install --no-index --find-links /opt/veriftools/wheels hypothesis; '
         'mkdir -p evidence replays')
HOOKS = {
    'guard': 'PYWORKERS_VERIF',
    'enable': 'no source hooks in /repo: checks import pyworkers from the working tree named by VERIF_REPO (default /repo); '
              'injection rides on harness/site/sitecustomize.py via PYTHONPATH and is active only when VERIF_INJECT_DIR is set',
    'baseline_off_cmd': 'cd /repo && /venv/bin/python -m pytest -ra -q -p no:cacheprovider --timeout=900 --continue-on-collection-errors',
    'source_commits': [],
    'add_only': True,
}
ENGINES = [
    {'name': 'WIRE', 'path': 'harness/props/c10.py', 'serves_properties': ['C10'],
     'kind_free_text': 'scripted sockets: real send_msg/recv_msg over generated segmentation/truncation plans (Hypothesis + exhaustive short streams)'},
]
NOTES = 'Runner: ./check <ID> --tier quick|thorough [--replay f]; exit 0 held, 1 VIOLATION, 2 harness error. See DESIGN.md.'

CHECKS = {
    'C10': {
        'engine': 'WIRE', 'level': 'exploration', 'design_ref': 'DESIGN.md 3.3, 4 (C10)',
        'technique': 'property-based testing (Hypothesis) + exhaustive enumeration of short streams; round-trip and truncation oracle over a scripted socket',
        'text': 'Generated message sequences are written by the real send_msg and read back by the real recv_msg through a scripted socket that '
                'cuts the stream according to a generated plan; every composition of the 8-byte and 16-byte streams and every truncation offset '
                'of them is enumerated, longer streams get boundary-relative cuts. The oracle is the round trip plus "truncation => ConnectionClosedError, '
                'never a value, never a spin". Exploration, not proof: long streams are sampled.',
        'note': 'Trusts the socket model (recv returns 1..n bytes, b"" at EOF, ConnectionResetError on RST); real kernels are not in the loop.',
    },
}
NOT_APPLICABLE = {}
