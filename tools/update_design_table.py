#!/usr/bin/env python3
import subprocess, re
t = subprocess.check_output(['/verif/tools/seed_table.py']).decode()
s = open('/verif/DESIGN.md').read()
s = re.sub(r'<!-- SEEDED_TABLE -->.*?<!-- /SEEDED_TABLE -->', lambda m: '<!-- SEEDED_TABLE -->\n' + t + '<!-- /SEEDED_TABLE -->', s, flags=re.S)
open('/verif/DESIGN.md', 'w').write(s)
