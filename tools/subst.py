#!/usr/bin/env python3
"""subst.py FILE OLDFILE NEWFILE — replace exactly one occurrence of OLD by NEW in FILE, preserving CRLF/LF line endings."""
import sys
path, oldp, newp = sys.argv[1:4]
raw = open(path, newline='').read()
crlf = '\r\n' in raw
old = open(oldp).read()
new = open(newp).read()
if crlf:
    old = old.replace('\r\n', '\n').replace('\n', '\r\n')
    new = new.replace('\r\n', '\n').replace('\n', '\r\n')
n = raw.count(old)
if n != 1:
    sys.exit(f'expected exactly one occurrence, found {n}')
open(path, 'w', newline='').write(raw.replace(old, new))
