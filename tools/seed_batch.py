#!/usr/bin/env python3
"""seed_batch.py <root dir with Cxx/_seed/mN> [names...] - run seed_verify for every delivered seed that has no meta.json yet (or the named ones)."""
import os, subprocess, sys
root = sys.argv[1]
only = set(sys.argv[2:])
TESTS = {
 'C01': ['tests/good_test.py', 'tests/persistent_good_test.py'], 'C02': ['tests/good_test.py'], 'C03': ['tests/good_test.py', 'tests/terminate_test.py'],
 'C04': ['tests/terminate_test.py'], 'C05': ['tests/persistent_good_test.py'], 'C06': ['tests/persistent_good_test.py', 'tests/persistent_terminate_test.py'],
 'C07': ['tests/pool_test.py'], 'C08': ['tests/pool_test.py'], 'C09': ['tests/pool_test.py'], 'C10': ['tests/good_test.py'], 'C11': ['tests/context_test.py', 'tests/good_test.py'],
 'C12': ['tests/context_test.py', 'tests/terminate_server_test.py'], 'C13': ['tests/reduce_test.py'], 'C14': ['tests/reduce_test.py'], 'C15': ['tests/reduce_test.py', 'tests/context_test.py'],
 'C16': ['tests/state_test.py'], 'C17': ['tests/persistent_restart_test.py'], 'C18': ['tests/context_test.py'], 'C19': ['tests/persistent_restart_test.py', 'tests/norun_test.py'],
 'C20': ['tests/good_test.py', 'tests/context_test.py'],
}
EXTRA = {'C07': ['C08'], 'C08': ['C07', 'C09'], 'C09': ['C08'], 'C01': ['C03'], 'C03': ['C01'], 'C06': ['C01'], 'C13': ['C14'], 'C14': ['C13'], 'C11': ['C20'], 'C20': ['C11']}
for prop in sorted(os.listdir(root)):
    d = os.path.join(root, prop, '_seed')
    if not os.path.isdir(d):
        continue
    for m in sorted(os.listdir(d)):
        src = os.path.join(d, m)
        if not (os.path.isfile(os.path.join(src, 'patch.diff')) and os.path.isfile(os.path.join(src, 'demo.py'))):
            continue
        name = f'{prop}-{m}'
        if only and name not in only:
            continue
        if not only and os.path.exists(f'/verif/seeded/{name}/meta.json'):
            continue
        cmd = ['/verif/tools/seed_verify.py', name, prop, src] + TESTS.get(prop, []) + ['--checks', ','.join([prop] + EXTRA.get(prop, []))]
        subprocess.call(cmd)
