#!/usr/bin/env python3
"""Print the markdown table of seeded changes from seeded/*/meta.json (+ seeded/needs.json)."""
import glob, json, os
needs = json.load(open('/verif/seeded/needs.json'))
rows = []
for p in sorted(glob.glob('/verif/seeded/*/meta.json')):
    m = json.load(open(p))
    s = m['seed']
    det = [f"{c} ({'; '.join(sorted(set(l.split('symptom: ')[1].split('  (')[0] for l in v['output'] if 'symptom: ' in l)))[:120]})" for c, v in m['checks'].items() if v['detected']]
    miss = [c for c, v in m['checks'].items() if not v['detected']]
    rows.append(f"| {s} | {m['breaks_property']} | {needs.get(s, m.get('needs', ''))} | {'; '.join(det) or '—'} | {', '.join(miss) or '—'} |")
    m['needs_to_manifest'] = needs.get(s, m.get('needs', ''))
    json.dump(m, open(p, 'w'), indent=1)
print('| seed | breaks | what it needs to manifest | caught by (symptom @ site) | also run, silent |')
print('|---|---|---|---|---|')
print('\n'.join(rows))
