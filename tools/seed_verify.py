#!/usr/bin/env python3
"""seed_verify.py <seed-name> <property-id> <src-dir with patch.diff demo.py [notes.md]> <test files...> [--checks C07,C08]
Confirms a seeded change in a scratch worktree of /repo (outside /repo and /verif):
 demo passes on the original, fails with the change, the given repo test files still pass with the change,
 then runs the registered checks against the changed tree (VERIF_REPO) and records everything in /verif/seeded/<name>/."""
import json, os, shutil, subprocess, sys, tempfile, time

args = sys.argv[1:]
checks = None
if '--checks' in args:
    i = args.index('--checks'); checks = args[i + 1].split(','); del args[i:i + 2]
name, prop, src = args[:3]
tests = args[3:]
checks = checks or [prop]
wt = tempfile.mkdtemp(prefix='seedwt-')
os.rmdir(wt)
subprocess.check_call(['git', '-C', '/repo', 'worktree', 'add', '-q', '--detach', wt, 'HEAD'])
meta = {'seed': name, 'breaks_property': prop, 'repo_head': subprocess.check_output(['git', '-C', '/repo', 'rev-parse', '--short', 'HEAD']).decode().strip()}


def run(cmd, timeout=900, env=None, cwd=None):
    e = dict(os.environ, PYTHONPATH=wt, PYTHONDONTWRITEBYTECODE='1', SEED_TREE=wt)
    if env:
        e.update(env)
    out = tempfile.NamedTemporaryFile('w+', delete=False)
    try:
        p = subprocess.Popen(cmd, stdout=out, stderr=subprocess.STDOUT, stdin=subprocess.DEVNULL, env=e, cwd=cwd or wt, start_new_session=True)
        try:
            rc = p.wait(timeout)
        except subprocess.TimeoutExpired:
            rc = 'timeout'
        try:
            os.killpg(p.pid, 9)
        except Exception:
            pass
        out.flush(); out.seek(0)
        return rc, out.read()
    finally:
        out.close(); os.unlink(out.name)


try:
    demo = os.path.join(src, 'demo.py')
    # demos written by the sub-agents sometimes hard-code the path of the agent's own scratch worktree: make them tree-independent
    import re
    txt = open(demo).read()
    txt2 = re.sub(r"(['\"])/tmp/seed/C\d\d(/?)\1", "__import__('os').environ.get('SEED_TREE', '/repo')", txt)
    txt2 = re.sub(r"/tmp/seed/C\d\d", wt, txt2)
    open(os.path.join(wt, '_demo.py'), 'w').write(txt2)
    meta['demo_paths_rewritten'] = txt2 != txt
    rc0, o0 = run(['/venv/bin/python', '_demo.py'])
    meta['demo_on_original'] = {'exit': rc0, 'tail': o0[-300:]}
    ap = subprocess.run(['git', '-C', wt, 'apply', '--whitespace=nowarn', os.path.join(src, 'patch.diff')], capture_output=True, text=True)
    meta['patch_applies'] = ap.returncode == 0
    if ap.returncode != 0:
        meta['apply_error'] = ap.stderr[-500:]
    rc1, o1 = run(['/venv/bin/python', '_demo.py'])
    meta['demo_with_change'] = {'exit': rc1, 'tail': o1[-300:]}
    meta['compiles'] = run(['/venv/bin/python', '-c', 'import pyworkers.pool, pyworkers.remote_server, pyworkers.remote_context, pyworkers.persistent_remote, pyworkers.persistent_process, pyworkers.persistent_thread'])[0] == 0
    if tests:
        rc, o = run(['/venv/bin/python', '-m', 'pytest', '-q', '-p', 'no:cacheprovider', '--timeout=600', '-k', 'not test_loop and not test_fun and not test_fn'] + tests, timeout=2400)
        lines = [l for l in o.splitlines() if l.startswith(('FAILED', 'ERROR')) or ' passed' in l or ' failed' in l]
        meta['repo_tests_with_change'] = {'files': tests, 'exit': rc, 'summary': lines[-12:]}
    meta['checks'] = {}
    for c in checks:
        evbak = tempfile.mkdtemp(prefix='evbak-')
        shutil.copytree('/verif/evidence', evbak, dirs_exist_ok=True)
        t0 = time.time()
        r = subprocess.run(['/verif/check', c, '--tier', 'quick'], env=dict(os.environ, VERIF_REPO=wt), capture_output=True, text=True, cwd='/verif')
        lines = [l for l in r.stdout.splitlines() if l.startswith(('VIOLATION', '  symptom', '['))]
        meta['checks'][c] = {'cmd': f'VERIF_REPO=<worktree with patch> ./check {c} --tier quick', 'exit': r.returncode, 'detected': r.returncode == 1,
                             'wall_s': round(time.time() - t0, 1), 'output': lines[:8]}
        shutil.copytree(evbak, '/verif/evidence', dirs_exist_ok=True)
        shutil.rmtree(evbak, ignore_errors=True)
    if not os.environ.get('SEED_PARALLEL'):
        shutil.rmtree('/verif/replays', ignore_errors=True)
    dst = os.path.join('/verif/seeded', name)
    os.makedirs(dst, exist_ok=True)
    for f in ('patch.diff', 'demo.py', 'notes.md'):
        if os.path.exists(os.path.join(src, f)) and os.path.abspath(src) != os.path.abspath(dst):
            shutil.copy(os.path.join(src, f), os.path.join(dst, f))
    if meta.get('demo_paths_rewritten'):
        t = open(os.path.join(dst, 'demo.py')).read()
        t = re.sub(r"(['\"])/tmp/seed/C\d\d(/?)\1", "__import__('os').environ.get('SEED_TREE', '/repo')", t)
        open(os.path.join(dst, 'demo.py'), 'w').write(t)
    meta['valid'] = bool(rc0 == 0 and rc1 not in (0, 'timeout') and meta['patch_applies'] and meta['compiles'])
    json.dump(meta, open(os.path.join(dst, 'meta.json'), 'w'), indent=1)
    print(json.dumps({k: meta[k] for k in ('seed', 'valid', 'patch_applies')}), {c: v['detected'] for c, v in meta['checks'].items()},
          meta.get('repo_tests_with_change', {}).get('summary', [])[-2:])
finally:
    subprocess.call(['git', '-C', '/repo', 'worktree', 'remove', '--force', wt])
    shutil.rmtree(wt, ignore_errors=True)
