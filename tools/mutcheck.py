#!/usr/bin/env python3
"""mutcheck.py <ID[,ID...]> <relative file> <old> <new> [--tier quick]
Copy /repo to a scratch dir, apply one textual mutation (CRLF-aware), run the checks against it (VERIF_REPO), clean up."""
import os, shutil, subprocess, sys, tempfile
ids, rel, old, new = sys.argv[1:5]
tier = sys.argv[6] if len(sys.argv) > 6 else 'quick'
tmp = tempfile.mkdtemp(prefix='mut-')
evbak = tempfile.mkdtemp(prefix='evbak-')
shutil.copytree('/verif/evidence', evbak, dirs_exist_ok=True)
try:
    shutil.copytree('/repo/pyworkers', os.path.join(tmp, 'pyworkers'))
    p = os.path.join(tmp, rel)
    raw = open(p, newline='').read()
    if '\r\n' in raw:
        old = old.replace('\n', '\r\n'); new = new.replace('\n', '\r\n')
    if raw.count(old) != 1:
        sys.exit(f'expected exactly one occurrence of old text, found {raw.count(old)}')
    open(p, 'w', newline='').write(raw.replace(old, new))
    for i in ids.split(','):
        env = dict(os.environ, VERIF_REPO=tmp)
        r = subprocess.run(['/verif/check', i, '--tier', tier], env=env, capture_output=True, text=True, cwd='/verif')
        lines = [l for l in r.stdout.splitlines() if l.startswith(('VIOLATION', '[', '  symptom', 'KNOWN'))]
        print(f'{i}: exit={r.returncode}', *lines[:6], sep='\n   ')
        if r.returncode == 2:
            print(r.stderr[-1500:])
finally:
    shutil.rmtree(tmp, ignore_errors=True)
    shutil.copytree(evbak, '/verif/evidence', dirs_exist_ok=True)
    shutil.rmtree(evbak, ignore_errors=True)
    shutil.rmtree('/verif/replays', ignore_errors=True)
