import sys, threading, time, os
sys.path.insert(0, os.environ.get('TREE','/repo')); sys.path.insert(0,'/verif/harness')
import logging; logging.getLogger('pyworkers').addHandler(logging.NullHandler())
import vtargets
from pyworkers.remote_server import spawn_server
from pyworkers.persistent_remote import PersistentRemoteWorker
if __name__ == '__main__':
    srv = spawn_server(('127.0.0.1', 0))
    bad = {}
    N = int(sys.argv[1])
    for i in range(N):
        w = PersistentRemoteWorker(vtargets.item_or_raise, host=srv.addr)
        got = []; end = []
        def consume():
            try:
                for v in w.results_iter():
                    got.append(v)
                end.append('stopped')
            except BaseException as e:
                end.append('raised:' + type(e).__name__)
        th = threading.Thread(target=consume, daemon=True); th.start()
        for x in range(5):
            w.enqueue(x)
        try:
            r = w.wait(10)
        except BaseException as e:
            r = 'wait raised ' + type(e).__name__
        th.join(10)
        key = (str(r), end[0] if end else 'blocked', len(got))
        if key != ('True', 'stopped', 5):
            bad[key] = bad.get(key, 0) + 1
        try: w.terminate(1)
        except BaseException: pass
    print('anomalies', bad, 'of', N)
    srv.terminate(force=True)
    os._exit(0)
