#!/bin/bash
# usage: run_repo_tests.sh <label> <pytest args...>   -> /tmp/rt_<label>.log (last line EXIT=<code>)
label="$1"; shift
cd /repo || exit 2
setsid timeout -k 5 3600 /venv/bin/python -m pytest -q -p no:cacheprovider --timeout=900 "$@" > "/tmp/rt_$label.log" 2>&1 < /dev/null
echo "EXIT=$?" >> "/tmp/rt_$label.log"
