#!/usr/bin/env python3
"""Regenerates MANIFEST.json from tools/manifest_src.py (single source of truth for claimed checks)."""
import json, os, sys
HERE = os.path.dirname(os.path.abspath(__file__))
sys.path.insert(0, HERE)
import manifest_src as m

props = [json.loads(l)['id'] for l in open(os.path.join(HERE, '..', 'properties.jsonl'))]
checks = []
for pid in props:
    c = m.CHECKS.get(pid)
    if not c:
        continue
    checks.append({
        'property_id': pid,
        'quick_cmd': f'./check {pid} --tier quick',
        'thorough_cmd': f'./check {pid} --tier thorough',
        'evidence_file': f'evidence/{pid}.json',
        'replay_cmd_template': f'./check {pid} --replay {{path}}',
        'engine': c['engine'],
        'level_claimed': {'category': c['level'], 'text': c['text'], 'design_ref': c['design_ref']},
        'level_note': c['note'],
        'technique': c['technique'],
    })
na = [{'property_id': pid, 'reason': m.NOT_APPLICABLE.get(pid, 'check not built yet; see DESIGN.md section 4 for the plan')}
      for pid in props if pid not in m.CHECKS]
man = {
    'version': 1,
    'setup_cmd': m.SETUP,
    'hooks': m.HOOKS,
    'engines': m.ENGINES,
    'checks': checks,
    'not_applicable': na,
    'notes': m.NOTES,
}
json.dump(man, open(os.path.join(HERE, '..', 'MANIFEST.json'), 'w'), indent=1)
print('claimed', len(checks), 'not_applicable', len(na))
