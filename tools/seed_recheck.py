#!/usr/bin/env python3
"""seed_recheck.py <seed-name> <checks C01,C03> [--tier quick] - re-run registered checks against an already confirmed seeded change
(seeded/<name>/patch.diff applied in a scratch worktree outside /repo and /verif) and update the 'checks' entries of its meta.json.
The evidence files of /verif are left as they were (the evidence of a run against a changed tree is not evidence about /repo)."""
import json, os, shutil, subprocess, sys, tempfile, time

args = sys.argv[1:]
tier = 'quick'
if '--tier' in args:
    i = args.index('--tier'); tier = args[i + 1]; del args[i:i + 2]
name, checks = args[0], args[1].split(',')
dst = os.path.join('/verif/seeded', name)
meta = json.load(open(os.path.join(dst, 'meta.json')))
wt = tempfile.mkdtemp(prefix='seedwt-')
os.rmdir(wt)
subprocess.check_call(['git', '-C', '/repo', 'worktree', 'add', '-q', '--detach', wt, 'HEAD'])
try:
    subprocess.check_call(['git', '-C', wt, 'apply', '--whitespace=nowarn', os.path.join(dst, 'patch.diff')])
    for c in checks:
        evdir = tempfile.mkdtemp(prefix='evtmp-')
        t0 = time.time()
        r = subprocess.run(['/verif/check', c, '--tier', tier], env=dict(os.environ, VERIF_REPO=wt, VERIF_EVIDENCE_DIR=evdir), capture_output=True, text=True, cwd='/verif')
        lines = [l for l in r.stdout.splitlines() if l.startswith(('VIOLATION', '  symptom', '['))]
        meta.setdefault('checks', {})[c] = {'cmd': f'VERIF_REPO=<worktree with patch> ./check {c} --tier {tier}', 'exit': r.returncode, 'detected': r.returncode == 1,
                                           'wall_s': round(time.time() - t0, 1), 'output': lines[:8]}
        shutil.rmtree(evdir, ignore_errors=True)
    meta['rechecked_at_verif_commit'] = subprocess.check_output(['git', '-C', '/verif', 'rev-parse', '--short', 'HEAD']).decode().strip()
    json.dump(meta, open(os.path.join(dst, 'meta.json'), 'w'), indent=1)
    print(name, {c: meta['checks'][c]['detected'] for c in checks}, [meta['checks'][c]['output'][:3] for c in checks])
finally:
    subprocess.call(['git', '-C', '/repo', 'worktree', 'remove', '--force', wt])
    shutil.rmtree(wt, ignore_errors=True)
