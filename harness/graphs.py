"""GRAPH engine: class menu (opt-in classes with plain twins), graph builder from JSON specs, canonicaliser, call log."""
import array
import collections
import copy
import dataclasses
import datetime
import decimal
import enum
import fractions
import functools
import io
import pickle
import re
import uuid

from hypothesis import strategies as st

from pyworkers import remote_pickle as rp

LOG = []          # (event, id(obj), class name, remote flag or None)
PATCHREG = {}     # id(twin obj) -> patch dict merged into the twin's state (reference semantics for C15)


def log_reset():
    LOG.clear()
    PATCHREG.clear()


# ---------------------------------------------------------------------------
# plain (non opt-in) menu
# ---------------------------------------------------------------------------

class P0:
    pass


class P1:
    def __getstate__(self):
        LOG.append(('getstate', id(self), type(self).__name__, None))
        d = dict(self.__dict__)
        d['_gs'] = 'plain'
        return d

    def __setstate__(self, state):
        LOG.append(('setstate', id(self), type(self).__name__, None))
        self.__dict__.update(state)
        self.__dict__['_ss_calls'] = self.__dict__.get('_ss_calls', 0) + 1


class P2:
    __slots__ = ('a', 'b')


class P3:
    def __init__(self, tag=0):
        self.tag = tag

    def __reduce__(self):
        return (P3, (self.tag,), {k: v for k, v in self.__dict__.items() if k != 'tag'} or None)


class P4:
    def __new__(cls, tag=None):
        o = super().__new__(cls)
        o.tag = tag
        return o

    def __getnewargs__(self):
        return (self.tag,)


class P5:
    def __getstate__(self):
        return ('nd', sorted(self.__dict__.items(), key=lambda kv: kv[0]))

    def __setstate__(self, state):
        self.__dict__.update(dict(state[1]))
        self.__dict__['_ss_calls'] = self.__dict__.get('_ss_calls', 0) + 1


class P6(P1):
    def __getstate__(self, **kwargs):
        d = super().__getstate__(**kwargs)
        d['_p6'] = True
        return d


class P7:
    def __getstate__(self):
        return None


class P8(P0):
    __slots__ = ('s',)      # slots + dict


@dataclasses.dataclass
class DC:
    x: object = 0
    y: object = None


NT = collections.namedtuple('NT', ['p', 'q'])


class Color(enum.Enum):
    RED = 1
    BLUE = 2


def some_function(x):
    return x


class LateReg:
    """only picklable through a reducer registered with copyreg AFTER pyworkers has been imported"""

    def __init__(self, v):
        self.v = v
        import threading
        self.lock = threading.Lock()

    def __repr__(self):
        return f'LateReg({self.v!r})'


import copyreg as _copyreg
_copyreg.pickle(LateReg, lambda o: (LateReg, (o.v,)))


class H0:
    """plain helper used as FIRST base of opt-in classes (multiple inheritance)"""
    pass


from pyworkers.remote_pickle import SupportRemoteGetState as _Marker


class PM0(_Marker):
    """derives from the marker base class but has no remote-aware __getstate__: not opt-in, pickled the standard way"""
    pass


class PM1(_Marker):
    def __getstate__(self):
        LOG.append(('getstate', id(self), type(self).__name__, None))
        d = dict(self.__dict__)
        d['_gs'] = 'plain-marker-derived'
        return d


PLAIN = {c.__name__: c for c in (P0, P1, P2, P3, P4, P5, P6, P7, P8, H0, PM0, PM1)}


# ---------------------------------------------------------------------------
# opt-in menu with twins
# ---------------------------------------------------------------------------

def _state(self, remote, kind):
    d = dict(self.__dict__)
    d.pop('__setstate__', None)
    if kind == 'dict':
        d['_via'] = 'remote' if remote else 'local'
        return d
    if kind == 'nondict':
        return ('nd', sorted(d.items(), key=lambda kv: kv[0]), 'remote' if remote else 'local')
    if kind == 'none':
        return None if remote else d
    if kind == 'falsy':
        return {} if remote else d
    if kind == 'slots_std':
        # the standard state of a class with __slots__ and __dict__: (dict or None, {slot: value})
        sl = {'sa': self.sa} if hasattr(self, 'sa') else {}
        if remote:
            d = dict(d, _via='remote') if d else d
        return (d or None, sl)
    raise ValueError(kind)


SETSTATE_HOOK = [None]    # harness-owned rendezvous: lets several threads sit inside their loads() at the same time


def _setstate(self, state):
    LOG.append(('setstate', id(self), type(self).__name__, None))
    if SETSTATE_HOOK[0] is not None:
        SETSTATE_HOOK[0](self)
    if isinstance(state, dict):
        self.__dict__.update(state)
    elif state is not None:
        self.__dict__.update(dict(state[1]))
        self.__dict__['_via'] = state[2] if len(state) > 2 else None
    self.__dict__['_ss_calls'] = self.__dict__.get('_ss_calls', 0) + 1


def _raising_setstate(self, state):
    if isinstance(state, dict) and state.get('boom'):
        raise RuntimeError('setstate boom')
    _setstate(self, state)


OPTIN = {}
TWIN = {}
FEATURES = {}


def _wrapped(f):
    """an ordinary signature-preserving decorator (tracing, timing, locking ...) around a remote-aware __getstate__"""
    import functools

    @functools.wraps(f)
    def wrapper(*args, **kwargs):
        return f(*args, **kwargs)
    return wrapper


def make_pair(name, kind='dict', setstate='records', base='duck', newargs=False, parent=None, passthrough=False, first_bases=(), slots=None, setattr_hook=False, decorated=False):
    def r_getstate(self, remote=False):
        LOG.append(('getstate', id(self), type(self).__name__, bool(remote)))
        return _state(self, remote, kind)

    def t_getstate(self):
        LOG.append(('tgetstate', id(self), type(self).__name__, True))
        s = _state(self, True, kind)
        if id(self) in PATCHREG and isinstance(s, dict):
            s = dict(s)
            s.update(PATCHREG[id(self)])
        return s

    rd, td = {}, {}
    if passthrough:
        # derived class with a **kwargs pass-through override: transparent for the opt-in
        def r_pt(self, **kwargs):
            d = parent[0].__getstate__(self, **kwargs)
            if isinstance(d, dict):
                d['_pt'] = True
            return d

        def t_pt(self):
            d = parent[1].__getstate__(self)
            if isinstance(d, dict):
                d['_pt'] = True
            return d
        rd['__getstate__'] = r_pt
        td['__getstate__'] = t_pt
    elif parent is None or kind is not None:
        rd['__getstate__'] = _wrapped(r_getstate) if decorated else r_getstate
        td['__getstate__'] = t_getstate
    if setstate == 'records':
        rd['__setstate__'] = _setstate
        td['__setstate__'] = _setstate
    elif setstate == 'raises':
        rd['__setstate__'] = _raising_setstate
        td['__setstate__'] = _raising_setstate
    if newargs == 'ex_kwonly':
        def __new__(cls, *, tag=None):
            o = object.__new__(cls)
            o.tag = tag
            return o

        def __getnewargs_ex__(self):
            return ((), {'tag': self.tag})      # keyword-only constructor arguments: legal, pickled with NEWOBJ_EX by the standard module
        import types
        for d, cname in ((rd, name), (td, 'T' + name)):
            # (protocols 2 and 3 pickle a reference to cls.__new__ itself: it has to be importable by its qualified name)
            fn = types.FunctionType(__new__.__code__, __new__.__globals__, '__new__', __new__.__defaults__, __new__.__closure__)
            fn.__kwdefaults__ = {'tag': None}
            fn.__qualname__ = cname + '.__new__'
            fn.__module__ = __name__
            d['__new__'] = fn
            d['__getnewargs_ex__'] = __getnewargs_ex__
    elif newargs:
        def __new__(cls, tag=None):
            o = object.__new__(cls)
            o.tag = tag
            return o

        def __getnewargs__(self):
            return (self.tag,)
        for d in (rd, td):
            d['__new__'] = __new__
            d['__getnewargs__'] = __getnewargs__
    if setattr_hook:
        # attribute assignment is not plain (dirty tracking): restoring the state must go through __dict__, as the standard module does
        def __setattr__(self, k, v):
            object.__setattr__(self, k, v)
            object.__setattr__(self, '_dirty', True)
        rd['__setattr__'] = __setattr__
        td['__setattr__'] = __setattr__
    if slots:
        rd['__slots__'] = tuple(slots)
        td['__slots__'] = tuple(slots)
    if parent is not None:
        rbases, tbases = tuple(first_bases) + (parent[0],), tuple(first_bases) + (parent[1],)
    elif base == 'marker':
        rbases, tbases = (rp.SupportRemoteGetState,), (object,)
    else:
        rbases, tbases = (object,), (object,)
    R = type(rbases[-1])(name, rbases, dict(rd, __module__=__name__, __qualname__=name))
    T = type('T' + name, tbases, dict(td, __module__=__name__, __qualname__='T' + name))
    globals()[name] = R
    globals()['T' + name] = T
    OPTIN[name] = R
    TWIN[name] = T
    if kind is None and parent is not None:
        kind = FEATURES[parent[0].__name__]['kind']
    FEATURES[name] = {'kind': kind, 'setstate': setstate, 'base': base, 'newargs': newargs, 'parent': parent[0].__name__ if parent else None,
                      'passthrough': passthrough}
    return (R, T)


_R0 = make_pair('R0', 'dict', 'records', 'duck')
_R1 = make_pair('R1', 'dict', 'records', 'marker')
_R2 = make_pair('R2', None, None, 'marker', parent=_R1)                      # inherits everything
_R3 = make_pair('R3', 'dict', None, 'duck', parent=_R0, passthrough=True)    # **kwargs pass-through override
_R4 = make_pair('R4', 'nondict', 'records', 'duck')
_R5 = make_pair('R5', 'none', 'records', 'duck')
_R6 = make_pair('R6', 'falsy', 'records', 'marker')
_R7 = make_pair('R7', 'dict', 'none', 'duck')                                # no __setstate__ at all
_R8 = make_pair('R8', 'dict', 'records', 'duck', newargs=True)
_R9 = make_pair('R9', 'dict', 'raises', 'duck')                              # __setstate__ raises when state['boom']
_R10 = make_pair('R10', 'dict', 'none', 'marker')

_R11 = make_pair('R11', 'slots_std', 'none', 'duck', slots=('sa', '__dict__'))  # no __setstate__, standard (dict|None, slots) state
_R12 = make_pair('R12', None, None, 'duck', parent=_R0, first_bases=(H0,))      # remote-aware __getstate__ inherited from a NON-first base
_R13 = make_pair('R13', None, None, 'marker', parent=_R1, first_bases=(H0,))
_R14 = make_pair('R14', 'dict', 'records', 'duck', newargs='ex_kwonly')
_R16 = make_pair('R16', 'dict', 'records', 'duck', decorated=True)              # remote-aware __getstate__ behind a functools.wraps decorator
_R17 = make_pair('R17', 'dict', 'records', 'marker', decorated=True)
_R15 = make_pair('R15', 'dict', 'none', 'marker', setattr_hook=True)             # no __setstate__, attribute assignment has side effects

OPTIN_NAMES = list(OPTIN)
SAFE_OPTIN = ['R0', 'R1', 'R2', 'R3', 'R8', 'R9', 'R12', 'R13']     # dict state + __setstate__: the shapes C15 patches address


def is_optin_obj(o):
    return type(o).__name__ in OPTIN and type(o) is OPTIN[type(o).__name__]


# ---------------------------------------------------------------------------
# standard-library value menu
# ---------------------------------------------------------------------------

def _std(name):
    if name == 'datetime':
        return datetime.datetime(2020, 2, 29, 12, 30, 1, 5)
    if name == 'date':
        return datetime.date(1999, 12, 31)
    if name == 'timedelta':
        return datetime.timedelta(days=3, seconds=7)
    if name == 'decimal':
        return decimal.Decimal('12.3400')
    if name == 'fraction':
        return fractions.Fraction(22, 7)
    if name == 'enum':
        return Color.BLUE
    if name == 'dataclass':
        return DC(1, 'y')
    if name == 'namedtuple':
        return NT(1, ('a', 2))
    if name == 'range':
        return range(3, 30, 4)
    if name == 'complex':
        return complex(1.5, -2)
    if name == 'exc':
        return ValueError('bad', 3)
    if name == 'keyerror':
        return KeyError('k')
    if name == 'attrerror':
        return AttributeError('no attr', name='nm', obj=None)
    if name == 'oserror':
        return OSError(2, 'No such file')
    if name == 'function':
        return some_function
    if name == 'class':
        return P0
    if name == 'builtin':
        return len
    if name == 'regex':
        return re.compile(r'a+b', re.I)
    if name == 'ordereddict':
        return collections.OrderedDict([('b', 1), ('a', 2)])
    if name == 'defaultdict':
        d = collections.defaultdict(list)
        d['k'].append(1)
        return d
    if name == 'deque':
        return collections.deque([1, 2, 3], maxlen=5)
    if name == 'counter':
        return collections.Counter('abca')
    if name == 'partial':
        return functools.partial(some_function, 3)
    if name == 'uuid':
        return uuid.UUID(int=0x1234)
    if name == 'array':
        return array.array('i', [1, 2, 3])
    if name == 'bytearray':
        return bytearray(b'xyz')
    if name == 'bytesio':
        return io.BytesIO(b'payload')
    if name == 'stringio':
        return io.StringIO('text')
    if name == 'slice':
        return slice(1, 5, 2)
    if name == 'ellipsis':
        return Ellipsis
    if name == 'notimplemented':
        return NotImplemented
    if name == 'type_int':
        return int
    if name == 'late_copyreg':
        return LateReg(5)
    raise ValueError(name)


STD_NAMES = ['datetime', 'date', 'timedelta', 'decimal', 'fraction', 'enum', 'dataclass', 'namedtuple', 'range', 'complex', 'exc', 'keyerror',
             'attrerror', 'oserror', 'function', 'class', 'builtin', 'regex', 'ordereddict', 'defaultdict', 'deque', 'counter', 'partial', 'uuid',
             'array', 'bytearray', 'bytesio', 'stringio', 'slice', 'ellipsis', 'notimplemented', 'type_int', 'late_copyreg']
COPYREG_NAMES = {'regex', 'complex', 'late_copyreg'}


# ---------------------------------------------------------------------------
# building graphs from specs
# ---------------------------------------------------------------------------

def build(case, twin=False):
    """Return (root, nodes).  Node children refer to earlier nodes (index modulo position); links add edges afterwards (cycles)."""
    nodes = []
    for i, n in enumerate(case['nodes']):
        t = n['t']

        def ref(k):
            return nodes[k % i] if i else None
        if t == 'scalar':
            v = n['v']
            if isinstance(v, dict) and 'b' in v:
                v = bytes(v['b'])
            obj = v
        elif t == 'list':
            obj = [ref(k) for k in n['items']] if i else []
        elif t == 'tuple':
            obj = tuple(ref(k) for k in n['items']) if i else ()
        elif t == 'dict':
            obj = {key: ref(k) for key, k in n['items']} if i else {}
        elif t == 'set' or t == 'frozenset':
            items = []
            for k in (n['items'] if i else []):
                c = ref(k)
                # scalars only: the iteration order of a set of objects hashed by id would make the canonical numbering unstable
                if isinstance(c, _SCALARS) and c not in items:
                    items.append(c)
            obj = set(items) if t == 'set' else frozenset(items)
        elif t == 'std':
            obj = _std(n['v'])
        elif t == 'inst':
            name = n['cls']
            if name in PLAIN:
                cls = PLAIN[name]
            else:
                cls = TWIN[name] if twin else OPTIN[name]
            if name == 'P3':
                obj = cls(n.get('tag', 0))
            elif FEATURES.get(name, {}).get('newargs') == 'ex_kwonly':
                obj = cls(tag=n.get('tag', 7))
            elif name == 'P4' or FEATURES.get(name, {}).get('newargs'):
                obj = cls(n.get('tag', 7))
            else:
                obj = cls.__new__(cls)
            attrs = n.get('attrs', {})
            if name == 'P2':
                for key, k in list(attrs.items())[:2]:
                    setattr(obj, ('a', 'b')[list(attrs).index(key) % 2], ref(k))
            elif name == 'P7':
                pass
            elif FEATURES.get(name, {}).get('kind') == 'slots_std':
                items = list(attrs.items())
                if items:
                    obj.sa = ref(items[0][1])
                for key, k in items[1:]:
                    obj.__dict__[key] = ref(k)
            else:
                for key, k in attrs.items():
                    obj.__dict__[key] = ref(k)
                if name == 'P8':
                    obj.s = 'slot'
        else:
            raise ValueError(t)
        nodes.append(obj)
    # links: (holder index, key, target index): holder must be list / dict / instance with __dict__
    for h, key, tg in case.get('links', []):
        if not nodes:
            break
        holder = nodes[h % len(nodes)]
        target = nodes[tg % len(nodes)]
        if isinstance(holder, list):
            holder.append(target)
        elif type(holder) is dict:
            holder[key] = target
        elif hasattr(holder, '__dict__') and (type(holder).__name__.lstrip('T') in OPTIN or type(holder).__name__ in ('P0', 'P1', 'P6')):
            holder.__dict__[key] = target
    root = nodes[case.get('root', -1) % len(nodes)] if nodes else None
    return root, nodes


# ---------------------------------------------------------------------------
# canonical form (shape including sharing and cycles, class-name mapping for twins)
# ---------------------------------------------------------------------------

_SCALARS = (type(None), bool, int, float, str, bytes, complex, type(Ellipsis), type(NotImplemented))


def canon(obj, twin_names=False):
    memo = {}
    out = []

    def cname(t):
        n = t.__qualname__
        if twin_names and n.startswith('T') and n[1:] in OPTIN:
            return n[1:]
        return n

    def visit(o):
        if isinstance(o, _SCALARS) and not isinstance(o, enum.Enum):
            return ('s', type(o).__name__, repr(o))
        if id(o) in memo:
            return ('ref', memo[id(o)])
        idx = len(out)
        memo[id(o)] = idx
        out.append(None)
        t = type(o)
        if t in (list, tuple, collections.deque):
            d = (cname(t), [visit(x) for x in o]) + ((o.maxlen,) if t is collections.deque else ())
        elif t in (set, frozenset):
            d = (cname(t), sorted(repr(visit(x)) for x in o))
        elif t in (dict, collections.OrderedDict, collections.defaultdict, collections.Counter):
            items = [(visit(k), visit(v)) for k, v in o.items()]
            if t is dict or t is collections.OrderedDict:
                d = (cname(t), items)
            else:
                d = (cname(t), sorted(map(repr, items)), repr(getattr(o, 'default_factory', None)))
        elif isinstance(o, type) or callable(o) and not hasattr(o, '__dict__') or t.__name__ in ('function', 'builtin_function_or_method'):
            d = ('byref', getattr(o, '__module__', None), getattr(o, '__qualname__', repr(o)))
        elif isinstance(o, functools.partial):
            d = ('partial', visit(o.func), visit(o.args), visit(o.keywords))
        elif isinstance(o, BaseException):
            d = ('exc', cname(t), visit(o.args), visit({k: v for k, v in vars(o).items()}),
                 visit(getattr(o, 'name', None)) if isinstance(o, AttributeError) else None)
        elif isinstance(o, io.BytesIO) or isinstance(o, io.StringIO):
            d = ('io', cname(t), repr(o.getvalue()), o.tell())
        elif t.__name__.lstrip('T') in OPTIN or t.__name__ in PLAIN or dataclasses.is_dataclass(o) and not isinstance(o, type):
            attrs = {}
            if hasattr(o, '__dict__'):
                attrs.update(vars(o))
            for c in t.__mro__:
                for s in getattr(c, '__slots__', ()):
                    if s not in ('__dict__', '__weakref__') and hasattr(o, s):
                        attrs['slot:' + s] = getattr(o, s)
            d = ('inst', cname(t), [(k, visit(v)) for k, v in sorted(attrs.items(), key=lambda kv: kv[0])])
        elif isinstance(o, tuple):   # namedtuple
            d = ('ntuple', cname(t), [visit(x) for x in o])
        else:
            d = ('o', cname(t), re.sub(r'0x[0-9a-fA-F]+', '0x?', repr(o)))
        out[idx] = d
        return ('ref', idx)

    visit(obj)
    return out


def walk(obj):
    """All objects reachable through containers and instance dicts."""
    seen = {}
    stack = [obj]
    while stack:
        o = stack.pop()
        if id(o) in seen or isinstance(o, _SCALARS):
            continue
        seen[id(o)] = o
        if isinstance(o, (list, tuple, set, frozenset, collections.deque)):
            stack.extend(o)
        elif isinstance(o, dict):
            stack.extend(o.keys())
            stack.extend(o.values())
        elif hasattr(o, '__dict__') and not isinstance(o, type) and not callable(o):
            stack.extend(vars(o).values())
            stack.extend(_slot_values(o))
    return list(seen.values())


def _slot_values(o):
    out = []
    for c in type(o).__mro__:
        for s_ in getattr(c, '__slots__', ()):
            if s_ not in ('__dict__', '__weakref__') and hasattr(o, s_):
                out.append(getattr(o, s_))
    return out


# ---------------------------------------------------------------------------
# strategies
# ---------------------------------------------------------------------------

_scalar = st.one_of(st.none(), st.booleans(), st.integers(-5, 300), st.sampled_from([0.0, 1.5, -2.25]), st.sampled_from(['', 'a', 'xyz', 'k']),
                    st.builds(lambda b: {'b': list(b)}, st.binary(max_size=3)))
_keys = st.sampled_from(['a', 'b', 'c', 'k'])
_idx = st.integers(0, 40)


def node_strategy(inst_classes, std=True):
    opts = [
        st.builds(lambda v: {'t': 'scalar', 'v': v}, _scalar),
        st.builds(lambda v: {'t': 'scalar', 'v': v}, _scalar),
        st.builds(lambda it: {'t': 'list', 'items': it}, st.lists(_idx, max_size=4)),
        st.builds(lambda it: {'t': 'tuple', 'items': it}, st.lists(_idx, max_size=3)),
        st.builds(lambda it: {'t': 'dict', 'items': it}, st.lists(st.tuples(_keys, _idx), max_size=3, unique_by=lambda kv: kv[0])),
        st.builds(lambda it, fz: {'t': 'frozenset' if fz else 'set', 'items': it}, st.lists(_idx, max_size=3), st.booleans()),
    ]
    if inst_classes:
        inst = st.builds(lambda c, attrs, tag: {'t': 'inst', 'cls': c, 'attrs': dict(attrs), 'tag': tag},
                         st.sampled_from(inst_classes),
                         st.lists(st.tuples(_keys, _idx), max_size=3, unique_by=lambda kv: kv[0]), st.integers(0, 3))
        opts += [inst, inst, inst]
    if std:
        opts.append(st.builds(lambda v: {'t': 'std', 'v': v}, st.sampled_from(STD_NAMES)))
    return st.one_of(*opts)


def graph_strategy(inst_classes, std=True, max_nodes=14):
    return st.fixed_dictionaries({
        'nodes': st.lists(node_strategy(inst_classes, std), min_size=1, max_size=max_nodes),
        'links': st.lists(st.tuples(_idx, _keys, _idx).map(list), max_size=3),
        'root': st.sampled_from([-1, -1, -1, -2, 0]),
    })


def shape_labels(case, root):
    labels = set()
    objs = walk(root)
    n_inst = sum(1 for o in objs if type(o).__name__.lstrip('T') in OPTIN or type(o).__name__ in PLAIN)
    n_opt = sum(1 for o in objs if type(o).__name__.lstrip('T') in OPTIN)
    if n_inst:
        labels.add('has_instance')
    if n_opt:
        labels.add('has_optin')
    if n_opt >= 2:
        labels.add('optin>=2')
    c = canon(root)
    refs = 0
    for d in c:
        refs += repr(d).count("('ref'")
    if refs > len(c) - 1:
        labels.add('shared_or_cycle')
    # true cycle detection: can an object reach itself
    for o in objs:
        if isinstance(o, (list, dict)) or hasattr(o, '__dict__'):
            if any(x is o for x in walk_children_deep(o)):
                labels.add('cycle')
                break
    for o in objs:
        n = type(o).__name__
        if n == 'P2' or n == 'P8':
            labels.add('slots')
        if n == 'P3':
            labels.add('reduce')
        if n in ('P6', 'R3', 'TR3'):
            labels.add('kwargs_passthrough')
        if n == 'P4' or FEATURES.get(n.lstrip('T'), {}).get('newargs'):
            labels.add('getnewargs')
        if isinstance(o, (re.Pattern, complex)):
            labels.add('copyreg_type')
    for nd in case['nodes']:
        if nd['t'] == 'std':
            labels.add('std_value')
            if nd['v'] in COPYREG_NAMES:
                labels.add('copyreg_type')
    return labels, n_opt


def walk_children_deep(o):
    seen = {}
    stack = []

    def kids(x):
        if isinstance(x, (list, tuple, set, frozenset)):
            return list(x)
        if isinstance(x, dict):
            return list(x.values())
        if hasattr(x, '__dict__') and not isinstance(x, type) and not callable(x):
            return list(vars(x).values()) + _slot_values(x)
        return []
    stack.extend(kids(o))
    while stack:
        x = stack.pop()
        if id(x) in seen or isinstance(x, _SCALARS):
            continue
        seen[id(x)] = x
        yield x
        stack.extend(kids(x))
