"""FAKEHOST - a remote host played by the harness (real TCP sockets on 127.0.0.1) that speaks the server + child side of the
pyworkers protocol for exactly one worker and then *vanishes* in a scripted way: the control connection is reset / closed, the data
connection just goes silent (never closed) - what the parent sees of a host that lost power or of a hung server process which still
holds a duplicate of the socket.  Used by C06 (the stream of a dead worker ends) and C04 (forced terminate is bounded and truthful).
"""
import socket
import struct
import threading

from pyworkers.remote import send_msg, recv_msg, ConnectionClosedError
from pyworkers.utils import get_hostname

FAKE_PID = 4190001      # above every pid this sandbox hands out (pid_max 4194304 is never reached in a run); checked by the callers
FAKE_TID = 4190002


def _recv_raw(sock):
    def exactly(n):
        data = b''
        while len(data) < n:
            chunk = sock.recv(n - len(data))
            if not chunk:
                raise ConnectionClosedError()
            data += chunk
        return data
    return exactly(struct.unpack('!I', exactly(4))[0])


class FakeHost:
    """answers: how many inputs of a persistent worker get a partial result before the host vanishes (one-shot workers never get
    a result); ctrl: 'rst' | 'fin' - what happens to the control connection at that moment; fn: the target."""

    def __init__(self, answers=0, ctrl='rst', fn=None, persistent=True):
        self.answers = answers
        self.ctrl_mode = ctrl
        self.fn = fn or (lambda *a, **k: ('r',) + tuple(a))
        self.persistent = persistent
        self.listener = socket.socket(socket.AF_INET, socket.SOCK_STREAM)
        self.listener.bind(('127.0.0.1', 0))
        self.listener.listen()
        self.addr = self.listener.getsockname()
        self.vanished = threading.Event()
        self.keep = []      # sockets of the vanished host: kept open on purpose
        self.log = []
        self.thread = threading.Thread(target=self._serve, daemon=True, name='verif-fakehost')
        self.thread.start()

    def _serve(self):
        try:
            self.listener.settimeout(15)
            data, _ = self.listener.accept()
            self.keep.append(data)
            data.settimeout(20)
            _recv_raw(data)      # header (context, is_worker)
            _recv_raw(data)      # the worker object - a real server would unpickle it and spawn the child
            cl = socket.socket(socket.AF_INET, socket.SOCK_STREAM)
            cl.bind(('127.0.0.1', 0))
            cl.listen()
            cl.settimeout(15)
            send_msg(data, cl.getsockname())
            ctrl, _ = cl.accept()
            cl.close()
            wid = (get_hostname(), FAKE_PID, FAKE_TID)
            send_msg(ctrl, wid + (12345,))
            counter = 0
            if self.persistent:
                while counter < self.answers:
                    msg = recv_msg(data)
                    if msg is None:
                        break
                    args, kwargs = msg
                    counter += 1
                    send_msg(data, (counter, True, self.fn(*args, **kwargs), wid))
                if self.answers >= 0:
                    try:
                        data.settimeout(3)
                        recv_msg(data)       # the input during which the lights go out (if one comes)
                    except Exception:
                        pass
            self.log.append(f'answered {counter}')
            if self.ctrl_mode == 'silent':
                self.keep.append(ctrl)
                return
            if self.ctrl_mode == 'rst':
                ctrl.setsockopt(socket.SOL_SOCKET, socket.SO_LINGER, struct.pack('ii', 1, 0))
            ctrl.close()
        except Exception as e:
            self.log.append('fakehost error: ' + repr(e))
        finally:
            self.vanished.set()

    def close(self):
        for s in self.keep + [self.listener]:
            try:
                s.close()
            except OSError:
                pass
