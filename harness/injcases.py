"""Shared scenario executor for the INJECT properties (C01, C03, C06, C16, C20b): runs one real worker with a landing spec,
performs the real terminate()/wait(), and records everything the oracles need."""
import os
import queue
import signal
import threading
import time
import multiprocessing.connection as mpc

import inject
import vtargets
from core import bounded, Blocked, HarnessError, pid_alive

from pyworkers.worker import WorkerTerminatedError
from pyworkers.thread import ThreadWorker
from pyworkers.process import ProcessWorker
from pyworkers.remote import RemoteWorker
from pyworkers.persistent_thread import PersistentThreadWorker
from pyworkers.persistent_process import PersistentProcessWorker
from pyworkers.persistent_remote import PersistentRemoteWorker
from pyworkers.utils import Pipe

KINDS = {'thread': ThreadWorker, 'process': ProcessWorker, 'remote': RemoteWorker,
         'p_thread': PersistentThreadWorker, 'p_process': PersistentProcessWorker, 'p_remote': PersistentRemoteWorker}
ONE_SHOT = ['thread', 'process', 'remote']
PERSISTENT = ['p_thread', 'p_process', 'p_remote']
GUARD = 25.0


# --------------------------------------------------------------------------
# server fixture (one per shard, restarted when unhealthy)
# --------------------------------------------------------------------------

def server(ctx):
    srv = ctx.data.get('server')
    if srv is not None:
        try:
            if srv.is_alive():
                return srv
        except Exception:
            pass
        stop_server(ctx)
    from pyworkers.remote_server import spawn_server
    # (server_close_on_none: a server started the way run_server() / the command line do; set per shard by the checks that want it)
    srv = bounded(spawn_server, 30, ('127.0.0.1', 0), **({'close_on_none': True} if ctx.data.get('server_close_on_none') else {}))
    if not srv.is_alive():
        raise HarnessError('could not start a remote server')
    ctx.data['server'] = srv
    ctx.data['server_starts'] = ctx.data.get('server_starts', 0) + 1
    return srv


def server_healthy(ctx, limit=8):
    srv = ctx.data.get('server')
    if srv is None:
        return False
    try:
        if not srv.is_alive():
            return False
        w = bounded(RemoteWorker, limit, vtargets.sq, args=[3], host=srv.addr)
        ok = bounded(w.wait, limit, 5) and w.result == 9
        return bool(ok)
    except BaseException:
        return False


def stop_server(ctx):
    srv = ctx.data.pop('server', None)
    if srv is None:
        return
    try:
        bounded(srv.terminate, 10, timeout=2, force=True)
    except BaseException:
        pass
    try:
        if srv.pid and srv.pid != os.getpid() and pid_alive(srv.pid):
            os.kill(srv.pid, signal.SIGKILL)
    except Exception:
        pass


def fresh_name(ctx, tag='w'):
    ctx.data['serial'] = ctx.data.get('serial', 0) + 1
    return f'v{ctx.shard}-{os.getpid()}-{ctx.data["serial"]}-{tag}'


# --------------------------------------------------------------------------
# value encoding
# --------------------------------------------------------------------------

def enc(v):
    if isinstance(v, BaseException):
        return {'exc': type(v).__name__, 'args': repr(getattr(v, 'args', None))}
    if isinstance(v, tuple):
        return {'tuple': [enc(x) for x in v]}
    if isinstance(v, list):
        return [enc(x) for x in v]
    if isinstance(v, (type(None), bool, int, float, str)):
        return v
    return {'repr': repr(v)[:120]}


def read_accessor(w, what):
    """one observation on a (supposedly dead) worker; never raises"""
    try:
        if what == 'is_alive':
            return ['is_alive', enc(bounded(w.is_alive, 10))]
        if what == 'has_error':
            return ['has_error', enc(bounded(lambda: w.has_error, 10))]
        if what == 'result':
            return ['result', enc(bounded(lambda: w.result, 10))]
        if what == 'error':
            return ['error', enc(bounded(lambda: w.error, 10))]
        if what == 'wait0':
            return ['wait0', enc(bounded(w.wait, 10, 0))]
        if what == 'terminate0':
            return ['terminate0', enc(bounded(w.terminate, 10, 0))]
        if what == 'user_state':
            return ['user_state', enc(bounded(lambda: w.user_state, 10))]
    except Blocked:
        return [what, {'blocked': True}]
    except BaseException as e:
        return [what, {'raised': type(e).__name__, 'msg': str(e)[:120]}]
    raise ValueError(what)


# --------------------------------------------------------------------------
# scenario -> constructor arguments
# --------------------------------------------------------------------------

def make_worker(case, ctx, name, marker, cls=None, extra_kwargs=None):
    kind = case['kind']
    cls = cls or KINDS[kind]
    kw = {'name': name}
    if kind.endswith('remote'):
        kw['host'] = server(ctx).addr
    sc = case['scenario']
    if sc == 'quick_return':
        target, args = vtargets.quick_return, [7]
    elif sc == 'raise_own':
        target, args = vtargets.raise_own, ['x', 2]
    elif sc == 'loop_finally':
        target, args = vtargets.loop_finally, [marker, case.get('rounds', 3)]
    elif sc == 'spin_finally':
        target, args = vtargets.spin_finally, [marker]
    elif sc == 'persist':
        target, args = vtargets.item_or_raise, None
    elif sc == 'state_unrebuildable' or sc.startswith('spin_state:'):
        target, args = None, None
    elif sc.startswith('raise:'):
        target, args = vtargets.raise_exc, [sc.split(':')[1], ['a', 1]]
    elif sc.startswith('slowload:'):
        target, args = vtargets.ret_slowload, [int(sc.split(':')[1]) / 1000.0]
    elif sc.startswith('big:'):
        target, args = vtargets.make_bytes, [int(sc.split(':')[1])]
    else:
        raise ValueError(sc)
    if sc == 'state_unrebuildable':
        import vworkers
        cls = vworkers.CLASSES[kind]
        target, args = vworkers.state_target, (None if kind.startswith('p_') else [['needsargs'], 'return'])
        kw['init_state'] = 0
    if sc.startswith('spin_state:'):
        # endless target of a stateful worker whose user_state cannot be sent ('lock') or cannot be rebuilt by the parent ('needsargs')
        import vworkers
        cls = vworkers.CLASSES[kind]
        target, args = vworkers.state_target, [[sc.split(':')[1]], 'spin']
        kw['init_state'] = 0
    if case.get('pipe') == 'supplied' and kind.startswith('p_'):
        kw['results_pipe'] = Pipe()
    if extra_kwargs:
        kw.update(extra_kwargs)
    w = bounded(cls, GUARD, target, args=args, **kw)
    return w, kw.get('results_pipe')


def expected_items(items):
    """results of the persistent scenario target for the enqueued items, up to the first poison"""
    out = []
    for x in items:
        if x in ('POISON', 'UNPICKLABLE', 'UNSENDABLE', 'STUCK', 'HUGE'):
            break
        # ['T', v] = enqueue(v, tag='T'): a differently shaped input (keyword override of a default)
        out.append(('r', x[1], x[0]) if isinstance(x, list) else ('r', x))
    return out


# --------------------------------------------------------------------------
# census cache: one traced run per (kind, scenario, items, close)
# --------------------------------------------------------------------------

def _census_key(case):
    return (case['kind'], case['scenario'], repr(case.get('items', [])), bool(case.get('close')), case.get('rounds', 3),
            case.get('inject', {}).get('granularity', 'line'), case.get('cls', ''))


def census(case, ctx, cls=None):
    key = _census_key(case)
    cache = ctx.data.setdefault('census', {})
    if key in cache:
        return cache[key]
    c = dict(case, inject={'mode': 'census', 'n': -1, 'granularity': case.get('inject', {}).get('granularity', 'line')}, observe=[])
    obs = execute(c, ctx, cls=cls)
    tr = obs['trace']
    # s0: first event the child executes after it has reported its identity (the constructor cannot return earlier)
    s0 = 0
    kind = case['kind']
    for (i, f, fn, line, _) in tr:
        if kind.endswith('thread') and f == 'thread.py' and fn == '_run' and '_startup_sync.set()' in _line_text('thread', line):
            s0 = i + 1
            break
        if kind.endswith('process') and f == 'process.py' and fn == '_run' and '_init_child' in _line_text('process', line):
            s0 = i
            break
        if kind.endswith('remote') and f == 'remote.py' and fn == '_run_backend' and 'unused_sync' in _line_text('remote', line):
            s0 = i
            break
    if case['scenario'] == 'spin_finally':
        # endless target: the landing space is cut 90 events after the target is entered
        first = next((e[0] for e in tr if e[1] == 'vtargets.py'), len(tr))
        tr = tr[:first + 90]
    res = {'M': len(tr), 's0': s0, 'trace': tr}
    cache[key] = res
    return res


_src_cache = {}


def _line_text(mod, line):
    import inspect
    import importlib
    if mod not in _src_cache:
        m = importlib.import_module('pyworkers.' + mod)
        try:
            _src_cache[mod] = inspect.getsource(m).splitlines()
        except Exception:
            _src_cache[mod] = []
    src = _src_cache[mod]
    return src[line - 1] if 0 < line <= len(src) else ''


def line_text_any(mod, line):
    return _line_text(mod, line)


def line_text(fname, line):
    return _line_text(fname[:-3], line) if fname.endswith('.py') and fname[:-3] in (
        'thread', 'process', 'remote', 'persistent', 'persistent_thread', 'persistent_process', 'persistent_remote', 'worker', 'utils') else ''


# --------------------------------------------------------------------------
# execution
# --------------------------------------------------------------------------

def execute(case, ctx, cls=None, extra_kwargs=None, after_create=None):
    kind = case['kind']
    inj = case.get('inject') or {'mode': 'none'}
    mode = inj.get('mode', 'none')
    name = fresh_name(ctx, kind)
    marker = os.path.join(ctx.scratch, name + '.marker')
    obs = {'name': name, 'ctor': 'ok', 'reached': None, 'delivered': False, 'reads': [], 'dead': None}
    front = case.get('front')
    if front:
        inject.arm(name + '.front', front['mode'], front.get('n', -1))
    if mode in ('terminate', 'kill', 'census', 'pause'):
        inject.arm(name, mode, inj.get('n', -1), inj.get('sig', 'SIGKILL'), inj.get('granularity', 'line'))
    ctrl = case.get('ctrl')
    if ctrl:
        # the child-side control thread of a process worker is held at its n-th line for ctrl['hold'] seconds (it receives the terminate request)
        inject.arm(name + '.ctrl', ctrl['mode'], ctrl.get('n', -1))
    w = None
    pipe = None
    early = None
    try:
        try:
            w, pipe = make_worker(case, ctx, name, marker, cls=cls, extra_kwargs=extra_kwargs)
        except Blocked:
            obs['ctor'] = 'blocked'
            return obs
        except BaseException as e:
            obs['ctor'] = 'raised:' + type(e).__name__ + ':' + str(e)[:100]
            return obs
        obs['pid'] = w.pid
        obs['tid'] = w.tid
        if after_create:
            after_create(w, obs)
        items = case.get('items', [])
        if case['scenario'] == 'state_unrebuildable' and kind.startswith('p_'):
            bounded(w.enqueue, 10, ['needsargs'], 'return')
            bounded(w.close, 10)
            items = []
        if kind.startswith('p_'):
            acc = 0
            for x in items:
                try:
                    if isinstance(x, list):
                        bounded(w.enqueue, 10, x[1], tag=x[0])
                    else:
                        bounded(w.enqueue, 10, x)
                    acc += 1
                except BaseException as e:
                    obs.setdefault('enqueue_errors', []).append(type(e).__name__)
            obs['accepted'] = acc
            if case.get('consumer') == 'early' and pipe is None:
                # a consumer that is already reading (and will be blocked in next_result()) when the worker meets its end
                early = {'got': [], 'end': None}

                def consume():
                    try:
                        for v in w.results_iter():
                            early['got'].append(enc(v))
                            if len(early['got']) > 50:
                                break
                        early['end'] = 'stopped'
                    except BaseException as e:
                        early['end'] = 'raised:' + type(e).__name__
                        return
                    if case.get('read_again'):
                        # the iteration has just stopped (end of stream seen); the worker may still be winding down: one more read at once
                        try:
                            w.next_result()
                            early['again'] = 'value'
                        except queue.Empty:
                            early['again'] = 'empty'
                        except BaseException as e:
                            early['again'] = 'raised:' + type(e).__name__
                early['thread'] = threading.Thread(target=consume, daemon=True, name='verif-early-consumer')
                early['thread'].start()
                if case.get('consumer_lead'):
                    time.sleep(case['consumer_lead'])
            if case.get('close'):
                try:
                    bounded(w.close, 10)
                except BaseException as e:
                    obs['close_error'] = type(e).__name__

        term = case.get('term', {'timeout': 5, 'force': False})
        tkw = dict(term)
        if kind.endswith('remote'):
            tkw.setdefault('remote_timeout', tkw['timeout'])
        if mode in ('terminate', 'terminate_now', 'terminate_finished'):
            if mode == 'terminate':
                obs['reached'] = inject.wait_reached(name, 3.0)
            elif mode == 'terminate_finished':
                # the target ends on its own; its end is observed without touching the worker's own bookkeeping
                t_end = time.monotonic() + 15
                if kind.endswith('thread') or kind.endswith('remote'):
                    th = getattr(w, '_child', None)
                    while th is not None and th.is_alive() and time.monotonic() < t_end:
                        time.sleep(0.003)
                else:
                    while pid_alive(w.pid) and time.monotonic() < t_end:
                        time.sleep(0.003)
                time.sleep(0.02)
            elif case.get('settle'):
                time.sleep(case['settle'])
            if ctrl and ctrl['mode'] == 'pause':
                def _release_ctrl():
                    r_ = inject.wait_reached(name + '.ctrl', 4.0)
                    obs['ctrl_reached'] = r_
                    if r_:
                        time.sleep(ctrl.get('hold', 0.4))
                    inject.release(name + '.ctrl')
                threading.Thread(target=_release_ctrl, daemon=True).start()
            t0 = time.monotonic()
            try:
                obs['term_ret'] = bounded(w.terminate, GUARD, **tkw)
            except Blocked:
                obs['term_ret'] = 'blocked'
            except BaseException as e:
                obs['term_ret'] = 'raised:' + type(e).__name__
                obs['term_exc'] = str(e)[:200]
            obs['term_elapsed'] = round(time.monotonic() - t0, 3)
            if mode == 'terminate' and obs['reached']:
                d = inject.delivered(name, 1.0)
                obs['delivered'] = bool(d)
        elif front and front['mode'] == 'pause':
            # hold the parent-side forwarding thread at its n-th line, kill the remote child meanwhile, then let it go on
            obs['front_reached'] = inject.wait_reached(name + '.front', 3.0)
            if obs['front_reached']:
                try:
                    os.kill(w.pid, signal.SIGKILL)
                except ProcessLookupError:
                    pass
                time.sleep(0.15)
                inject.release(name + '.front')
            else:
                try:
                    os.kill(w.pid, signal.SIGKILL)
                except ProcessLookupError:
                    pass
            try:
                obs['wait_ret'] = bounded(w.wait, GUARD, 10)
            except Blocked:
                obs['wait_ret'] = 'blocked'
            except BaseException as e:
                obs['wait_ret'] = 'raised:' + type(e).__name__
        elif mode == 'kill_external':
            time.sleep(case.get('settle', 0.4))
            obs['was_alive_at_kill'] = pid_alive(w.pid) if w.pid != os.getpid() else None
            try:
                os.kill(w.pid, getattr(signal, inj.get('sig', 'SIGKILL')))
            except ProcessLookupError:
                pass
            try:
                obs['wait_ret'] = bounded(w.wait, GUARD, 10)
            except Blocked:
                obs['wait_ret'] = 'blocked'
            except BaseException as e:
                obs['wait_ret'] = 'raised:' + type(e).__name__
        elif mode == 'kill':
            obs['reached'] = inject.wait_reached(name, 3.0)
            try:
                obs['wait_ret'] = bounded(w.wait, GUARD, 10)
            except Blocked:
                obs['wait_ret'] = 'blocked'
            except BaseException as e:
                obs['wait_ret'] = 'raised:' + type(e).__name__
        elif mode == 'census' and case['scenario'] == 'spin_finally':
            time.sleep(0.4)
            try:
                bounded(w.terminate, GUARD, **tkw)
            except BaseException:
                pass
        elif case.get('poll') is not None:
            # poll with a tiny timeout: the first True is the moment the worker is "observed dead"
            t_end = time.monotonic() + 40
            r = False
            n_polls = 0
            try:
                while time.monotonic() < t_end:
                    n_polls += 1
                    r = bounded(w.wait, GUARD, case['poll'])
                    if r:
                        break
                obs['wait_ret'] = r
                obs['polls'] = n_polls
            except Blocked:
                obs['wait_ret'] = 'blocked'
            except BaseException as e:
                obs['wait_ret'] = 'raised:' + type(e).__name__
        else:
            try:
                obs['wait_ret'] = bounded(w.wait, GUARD, 10)
            except Blocked:
                obs['wait_ret'] = 'blocked'
            except BaseException as e:
                obs['wait_ret'] = 'raised:' + type(e).__name__

        # the worker must be dead now; if it is not, make it so (and say so)
        try:
            alive = bounded(w.is_alive, 10)
        except BaseException as e:
            alive = 'raised:' + type(e).__name__
        obs['dead'] = (alive is False) or (case.get('poll') is not None and obs.get('wait_ret') is True)
        if alive is True:
            try:
                bounded(w.terminate, GUARD, timeout=2, force=(not kind.endswith('thread')))
            except BaseException:
                pass
        for what in case.get('observe', []):
            obs['reads'].append(read_accessor(w, what))
        # persistent: the stream
        if kind.startswith('p_') and obs['dead']:
            stream = []
            end = None
            if pipe is not None:
                raw = []
                ep = pipe.parent_end
                t_end = time.monotonic() + 30
                while True:
                    left = t_end - time.monotonic()
                    if left <= 0 or not mpc.wait([ep], left):
                        end = 'blocked'
                        break
                    try:
                        m = ep.recv()
                    except (EOFError, OSError):
                        end = 'eof'
                        break
                    except Exception as e:
                        # a message that arrived intact but cannot be rebuilt on this side (the value is not ours to judge here)
                        raw.append({'unreadable': type(e).__name__})
                        continue
                    raw.append([enc(m[0]), enc(m[1]), enc(m[2])] if isinstance(m, tuple) and len(m) == 4 else {'odd': repr(m)[:80]})
                    if isinstance(m, tuple) and len(m) == 4 and m[1] is False:
                        end = 'marker'
                        break
                obs['raw'] = raw
                obs['stream_end'] = end
                obs['stream'] = [r[2] for r in raw if isinstance(r, list) and r[1] is True]
            elif early is not None:
                early['thread'].join(30)
                if early['thread'].is_alive():
                    if early['end'] == 'stopped' and case.get('read_again'):
                        obs['stream'] = list(early['got'])
                        obs['stream_end'] = 'stopped'
                        obs['read_again'] = 'blocked'
                    else:
                        obs['stream_end'] = 'blocked'
                        obs['stream'] = None
                    obs['early_got'] = list(early['got'])
                else:
                    obs['stream'] = list(early['got'])
                    obs['stream_end'] = early['end']
                    if case.get('read_again') and early['end'] == 'stopped':
                        obs['read_again'] = early.get('again')
                    if early['end'] == 'stopped':
                        try:
                            bounded(w.next_result, 30)
                            obs['after_end'] = 'value'
                        except queue.Empty:
                            obs['after_end'] = 'empty'
                        except Blocked:
                            obs['after_end'] = 'blocked'
                        except BaseException as e:
                            obs['after_end'] = 'raised:' + type(e).__name__
            else:
                def drain():
                    out = []
                    for v in w.results_iter():
                        out.append(enc(v))
                        if len(out) > 50:
                            break
                    return out
                try:
                    obs['stream'] = bounded(drain, 30)
                    obs['stream_end'] = 'stopped'
                except Blocked:
                    obs['stream_end'] = 'blocked'
                    obs['stream'] = None
                except BaseException as e:
                    obs['stream_end'] = 'raised:' + type(e).__name__
                    obs['stream'] = None
                if obs['stream_end'] == 'stopped':
                    try:
                        bounded(w.next_result, 30)
                        obs['after_end'] = 'value'
                    except queue.Empty:
                        obs['after_end'] = 'empty'
                    except Blocked:
                        obs['after_end'] = 'blocked'
                    except BaseException as e:
                        obs['after_end'] = 'raised:' + type(e).__name__
        if os.path.exists(marker):
            try:
                with open(marker) as f:
                    p = f.read().split()
                obs['marker'] = {'pid': int(p[0]), 'ident': int(p[1]), 'native_id': int(p[2])}
            except Exception:
                obs['marker'] = {'unreadable': True}
        obs['trace'] = inject.trace(name) if mode in ('terminate', 'kill', 'census', 'pause') else []
        return obs
    finally:
        if w is not None:
            try:
                if not kind.endswith('thread') and w.pid and w.pid != os.getpid() and pid_alive(w.pid):
                    os.kill(w.pid, signal.SIGKILL)
            except Exception:
                pass
        if pipe is not None:
            for e in (pipe.parent_end, pipe.child_end):
                try:
                    e.close()
                except Exception:
                    pass
        if mode != 'none':
            inject.cleanup(name)
        if front:
            obs['front_trace'] = inject.trace(name + '.front')
            inject.cleanup(name + '.front')
        if ctrl:
            inject.release(name + '.ctrl')
            obs['ctrl_trace'] = inject.trace(name + '.ctrl')
            inject.cleanup(name + '.ctrl')
        try:
            os.unlink(marker)
        except OSError:
            pass


def site_of(reached):
    if not reached:
        return 'not_reached'
    return f"{reached['file']}:{reached['func']}:{reached['line']}"


def stack_has(reached, func):
    return bool(reached) and any(fr[1] == func for fr in reached.get('stack', []))


# --------------------------------------------------------------------------
# region of a landing inside the entry function (try body / handler / finally ...), from the source AST
# --------------------------------------------------------------------------

_ast_cache = {}


def _entry_tries(mod, func):
    import ast
    import importlib
    import inspect
    key = (mod, func)
    if key in _ast_cache:
        return _ast_cache[key]
    m = importlib.import_module('pyworkers.' + mod)
    tree = ast.parse(inspect.getsource(m))
    found = None
    for node in ast.walk(tree):
        if isinstance(node, ast.FunctionDef) and node.name == func:
            found = node
            break
    _ast_cache[key] = found
    return found


def region_of(reached):
    """e.g. 'thread.py:_run:body', 'process.py:_run:handler', 'remote.py:_run_backend:body>finally', ':pre', ':try_line'"""
    import ast
    if not reached:
        return 'not_reached'
    fr = None
    for f in reached.get('stack', []):
        if f[1] in ('_run', '_run_backend') and f[0] in ('thread.py', 'process.py', 'remote.py'):
            fr = f
    if fr is None:
        return f"{reached['file']}:{reached['func']}"
    fn = _entry_tries(fr[0][:-3], fr[1])
    line = fr[2]
    path = []

    def descend(stmts):
        for st_ in stmts:
            if not (st_.lineno <= line <= getattr(st_, 'end_lineno', st_.lineno)):
                continue
            if isinstance(st_, ast.Try):
                if line == st_.lineno:
                    path.append('try_line')
                    return
                for part, body in (('body', st_.body), ('else', st_.orelse), ('finally', st_.finalbody)):
                    if body and body[0].lineno <= line <= body[-1].end_lineno:
                        path.append(part)
                        descend(body)
                        return
                for h in st_.handlers:
                    if h.lineno <= line <= h.end_lineno:
                        path.append('handler')
                        descend(h.body)
                        return
                path.append('try_keyword_line')     # 'finally:' / 'else:' lines
                return
            for attr in ('body', 'orelse'):
                sub = getattr(st_, attr, None)
                if isinstance(sub, list) and sub and sub[0].lineno <= line <= sub[-1].end_lineno:
                    descend(sub)
                    return
            return
    descend(fn.body)
    if not path:
        first_try = next((s for s in fn.body if isinstance(s, ast.Try)), None)
        path.append('pre' if first_try is not None and line < first_try.lineno else 'post')
    return f"{fr[0]}:{fr[1]}:{'>'.join(path)}"
