"""POOLSIM - the harness owns the pool's schedule (DESIGN.md 3.2).

Fake workers that speak the real result-pipe protocol over the real utils.Pipe the Pool creates for them, driven by a
deterministic tape-controlled scheduler that runs at every point where the real Pool yields control
(Pool._get_all_queues() just before it blocks in wait(), and worker.enqueue()).
"""
import itertools

from pyworkers.pool import Pool, PoolError
from pyworkers.persistent import WorkerClosedError
import pyworkers.pool as pool_mod


class SimDeadlock(BaseException):
    pass


class UserSourceError(Exception):
    """raised by a (simulated) user input source in the middle of a run"""


class SimAbort(BaseException):
    """scheduler step budget exceeded (livelock)"""


def f(x):
    return ('r', x)


class _NoSleepTime:
    def __init__(self, real, sim):
        self._real = real
        self._sim = sim

    def sleep(self, s):
        # Pool.run wraps enqueue in a bare except and then sleeps: re-raise a pending abort from here, outside that try block
        if self._sim.abort:
            raise SimAbort()
        return None

    def __getattr__(self, n):
        return getattr(self._real, n)


class Sched:
    def __init__(self, tape, dfs=False, max_steps=4000):
        self.tape = list(tape)
        self.pos = 0
        self.dfs = dfs
        self.choices = []       # (arity, value) for every real choice point
        self.steps = 0
        self.max_steps = max_steps
        self.sim = None

    def choose(self, n, default=0, names=None):
        if n <= 1:
            return 0
        self.steps += 1
        if self.steps > self.max_steps:
            if self.sim is not None:
                self.sim.abort = True
            raise SimAbort()
        if self.pos < len(self.tape):
            t = self.tape[self.pos]
            self.pos += 1
            if isinstance(t, str):
                v = names.index(t) if names and t in names else default
            else:
                v = t % n
        else:
            v = default
        self.choices.append((n, v))
        return v


class SimWorker:

    def __init__(self, sim, index, target=None, args=None, kwargs=None, name=None, userid=None, results_pipe=None, **kw):
        self.sim = sim
        self.index = index
        self.name = name
        self.userid = userid
        self.incarnation = 0
        self._new_incarnation(results_pipe)
        sim.workers.append(self)

    def _new_incarnation(self, results_pipe):
        # ids are a pure function of (case, worker index, incarnation): Pool picks idle workers by iterating a set of ids,
        # so the id values are a hidden scheduling parameter ('idsalt' in the case varies them)
        salt = self.sim.case.get('idsalt', 0)
        s = (self.index * (salt * 2 + 1) + salt) % 13 + 1 + 13 * self.incarnation
        self.incarnation += 1
        self.id = ('simhost', 100000 + s, s)
        self.pipe = results_pipe
        self.alive = True
        self.queue = []
        self.counter = 0
        self.sent = 0          # result messages written to the pipe
        self.read = 0          # result messages the pool has consumed ('finished' callbacks)
        self.enqueues_this_run = 0
        self.died_by = None
        self.closed_by_pool = False
        self.lingering = False   # dead (end marker / EOF already written) but still winding down: is_alive() is documented to be conservative

    # ---- what Pool uses
    @property
    def results_endpoint(self):
        return self.pipe.parent_end

    def is_alive(self):
        if not self.alive and self.lingering and self.sim.linger_checks:
            # a dead process that has not been reaped yet: is_alive() says True for a few more checks, then the truth
            self.linger_checks_left -= 1
            if self.linger_checks_left < 0:
                self.lingering = False
        return self.alive or self.lingering

    def enqueue(self, *inp):
        self.sim.at_enqueue(self, inp)
        if not self.alive and self.lingering and self.sim.linger_checks:
            # what a real process worker does in that window: its input pipe is gone, enqueue raises, is_alive() still says True
            self.sim.log('enqueue_raised_by_lingering', self.index, inp)
            self.sim.flags.add('enqueue_raises_on_lingering_dead_worker')
            self.sim.note_failed_handing(self, inp)       # the input was being handed to a worker that is dead
            raise OSError('broken pipe (simulated)')
        if not self.alive and self.lingering:
            # what the real thread / remote workers do in that window: the input is accepted (is_alive() is true) and never looked at
            self.sim.log('enqueued_to_lingering', self.index, inp)
            self.sim.flags.add('enqueue_to_lingering_dead_worker')
            self.sim.note_handed(self, inp)
            return
        if self.alive and (self.index, inp[-1]) in self.sim.flaky:
            # transient failure of the transport / of a user enqueue function: raises, the worker stays alive and accepts the next attempt
            self.sim.flaky.discard((self.index, inp[-1]))
            self.sim.flags.add('transient_enqueue_failure')
            self.sim.log('enqueue_failed_transiently', self.index, inp)
            raise OSError('transient enqueue failure (simulated)')
        if not self.alive:
            self.sim.log('enqueue_raised', self.index, inp)
            self.sim.note_failed_handing(self, inp)
            raise WorkerClosedError(self)
        self.queue.append(inp)
        self.enqueues_this_run += 1
        self.sim.log('enqueued', self.index, inp)
        self.sim.note_handed(self, inp)

    def reap(self):
        self.lingering = False

    def close(self):
        self.closed_by_pool = True
        self.lingering = False
        if self.alive:
            self._die(marker=True, why='closed')

    def wait(self, timeout=None):
        self.lingering = False
        return not self.alive

    def terminate(self, timeout=None, force=None, **kw):
        self.lingering = False
        if self.alive:
            self._die(marker=True, why='terminated')
        return True

    @property
    def has_error(self):
        return None if self.alive else self.died_by not in ('closed',)

    @property
    def error(self):
        return None

    @property
    def result(self):
        return None if self.alive else self.counter

    def restart(self, *a, results_pipe=None, timeout=None, **kw):
        self.lingering = False
        if self.alive:
            self._die(marker=True, why='restart')
        self._new_incarnation(results_pipe)
        self.sim.log('restarted', self.index)

    # ---- simulated child side
    def _die(self, marker, why, linger=False):
        self.alive = False
        self.lingering = bool(linger)
        self.linger_checks_left = self.sim.linger_checks
        self.died_by = why
        self.queue.clear()
        try:
            if marker:
                self.pipe.child_end.put((self.counter, False, None, self.id))
            self.pipe.child_end.close()
        except OSError:
            pass
        self.sim.log('died', self.index, why, 'marker' if marker else 'eof')
        self.sim.note_death(self)

    def process_one(self):
        inp = self.queue.pop(0)
        x = inp[-1]
        if self.sim.is_poison(self, x):
            self.sim.log('poisoned', self.index, x)
            self.sim.note_poisoned(self, x)
            self._die(marker=True, why='poison', linger=self.sim.linger)
            return
        self.counter += 1
        self.sent += 1
        self.pipe.child_end.put((self.counter, True, f(x), self.id))
        self.sim.log('answered', self.index, x)
        self.sim.note_answered(self, x)


def _readable(q):
    try:
        return q.poll(0)
    except (OSError, EOFError, BrokenPipeError):
        return True


class SchedPool(Pool):
    def __init__(self, sim, *a, **kw):
        super().__init__(*a, **kw)
        self._sim = sim

    def _get_all_queues(self):
        qs = list(super()._get_all_queues())
        if not self._map_guard:
            return qs
        return self._sim.at_wait(qs)


class Sim:
    """One simulated pool; `case` as in DESIGN appendix A (POOLSIM)."""

    def __init__(self, case, dfs=False):
        self.case = case
        self.sched = Sched(case.get('tape', []), dfs=dfs)
        self.sched.sim = self
        self.abort = False
        self.enqueue_fn_calls = 0
        self.workers = []
        self.trace = []
        self.kills_left = case.get('kills', 0)
        self.kill_marker = case.get('kill_marker', False)
        self.poison = {k: set(v) for k, v in case.get('poison', {}).items()}
        self.refuse = set((w, x) for w, x in case.get('refuse', []))
        self.flaky = set((w, x) for w, x in case.get('flaky', []))
        self.linger = bool(case.get('linger', False))
        self.linger_checks = int(case.get('linger_checks', 0))     # >0: lingering workers raise on enqueue and report is_alive() for that many more checks
        # bookkeeping for the oracles (per run)
        self.handed = {}       # x -> list of worker indices it was accepted by
        self.failed_handing = {}
        self.answered = {}     # x -> list of worker indices that produced f(x)
        self.refused = {}      # x -> list of worker indices
        self.poisoned = {}
        self.flags = set()
        self.finished_cb = []
        self.died_cb = []
        self.in_run = False
        self.pool = SchedPool(self, f, retry=case.get('retry', True), name='simpool')
        for i in range(case['workers']):
            self.pool.add_worker(lambda i=i, **kw: SimWorker(self, i, **kw), userid=i)

    def log(self, *ev):
        self.trace.append(ev)

    def is_poison(self, w, x):
        return x in self.poison.get('*', ()) or x in self.poison.get(str(w.index), ())

    # ---- notes
    def note_handed(self, w, inp):
        self.handed.setdefault(inp[-1], []).append(w.index)

    def note_failed_handing(self, w, inp):
        self.failed_handing.setdefault(inp[-1], []).append(w.index)
        self.flags.add('death_while_enqueueing')
        if w.sent > w.read:
            self.flags.add('enqueue_to_dead_with_unread_result')

    def note_answered(self, w, x):
        self.answered.setdefault(x, []).append(w.index)

    def note_poisoned(self, w, x):
        self.poisoned.setdefault(x, []).append(w.index)

    def note_death(self, w):
        if w.sent > w.read:
            self.flags.add('death_with_unread_result')

    # ---- scheduler
    def _enabled(self):
        ev = []
        for w in self.workers:
            if w.alive and w.queue:
                ev.append(('process', w))
        if self.kills_left > 0:
            for w in self.workers:
                if w.alive:
                    ev.append(('kill', w))
        return ev

    def _step(self, can_stop_fn):
        while True:
            ev = self._enabled()
            can_stop = can_stop_fn()
            opts = (['stop'] if can_stop else []) + ev
            if not opts:
                return False
            # default policy past the end of the tape: stop if allowed, else process oldest, never kill
            names = ['s' if o == 'stop' else ('p' if o[0] == 'process' else 'k') + str(o[1].index) for o in opts]
            i = self.sched.choose(len(opts), 0, names)
            o = opts[i]
            if o == 'stop':
                return True
            if self.sched.pos >= len(self.sched.tape) and not self.sched.dfs and o[0] == 'kill':
                # fair default never kills
                procs = [e for e in ev if e[0] == 'process']
                if not procs:
                    return False
                o = procs[0]
            kind, w = o
            if kind == 'process':
                w.process_one()
            else:
                self.kills_left -= 1
                w._die(marker=self.kill_marker, why='killed', linger=self.linger)

    def at_enqueue(self, w, inp):
        if not self.in_run:
            return
        self._step(lambda: True)

    def at_wait(self, qs):
        def readable():
            return any(_readable(q) for q in qs)
        ok = self._step(readable)
        if not ok and not readable():
            self.log('deadlock')
            raise SimDeadlock()
        # permute the order in which the pool will see the ready queues (ready ones first, in the chosen order)
        ready = [q for q in qs if _readable(q)]
        if len(ready) > 1:
            perms = list(itertools.permutations(range(len(ready))))
            p = perms[self.sched.choose(len(perms), 0)]
            ready = [ready[i] for i in p]
        return ready + [q for q in qs if all(q is not r for r in ready)]

    # ---- one Pool.run
    def run(self, inputs, extra=0, return_results=True, source='iter', use_enqueue_fn=None, fail_after=None):
        self.handed, self.failed_handing, self.answered, self.refused, self.poisoned = {}, {}, {}, {}, {}
        self.finished_cb, self.died_cb = [], []
        for w in self.workers:
            w.enqueues_this_run = 0
        srcs = []
        if source == 'callable':
            srcs.append(lambda worker: worker.userid)
        if fail_after is None:
            srcs.append(iter(list(inputs)))
        else:
            def failing(items=list(inputs), k=fail_after):
                for i_, x_ in enumerate(items):
                    if i_ == k:
                        raise UserSourceError('input source failed')
                    yield x_
                raise UserSourceError('input source failed')
            srcs.append(failing())

        def cb(worker, what, *a):
            if what == 'finished':
                worker.read += 1
                self.finished_cb.append((worker.index, a[0]))
            elif what == 'died':
                self.died_cb.append(worker.index)

        enqueue_fn = None
        if use_enqueue_fn if use_enqueue_fn is not None else bool(self.refuse):
            def enqueue_fn(worker, *inp):
                self.enqueue_fn_calls += 1
                if self.enqueue_fn_calls > 3000 or self.abort:
                    self.abort = True
                    raise SimAbort()
                if (worker.index, inp[-1]) in self.refuse:
                    self.refused.setdefault(inp[-1], []).append(worker.index)
                    self.log('refused', worker.index, inp[-1])
                    return False
                worker.enqueue(*inp)
                return True
        real_time = pool_mod.time
        pool_mod.time = _NoSleepTime(real_time, self)
        self.in_run = True
        res = {'kind': None}
        try:
            r = self.pool.run(*srcs, worker_callback=cb, enqueue_fn=enqueue_fn, worker_extra_pending_inputs=extra,
                              return_results=return_results)
            res = {'kind': 'return', 'value': r}
        except PoolError as e:
            res = {'kind': 'poolerror', 'partial': e.partial_results}
        except UserSourceError:
            res = {'kind': 'source_raised'}
        except SimDeadlock:
            res = {'kind': 'deadlock'}
        except SimAbort:
            res = {'kind': 'livelock'}
        except Exception as e:  # internal error of Pool.run
            import traceback
            tb = traceback.extract_tb(e.__traceback__)
            where = next((f'{fr.name}:{fr.line}' for fr in reversed(tb) if fr.filename.endswith('pool.py')), '')
            res = {'kind': 'internal', 'exc': type(e).__name__, 'msg': str(e)[:200], 'where': where}
        finally:
            self.in_run = False
            pool_mod.time = real_time
        return res

    def close(self):
        for w in self.workers:
            for end in (w.pipe.child_end, w.pipe.parent_end):
                try:
                    end.close()
                except OSError:
                    pass
