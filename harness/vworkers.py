"""Stateful subclasses of the six worker classes (as tests/state_test.py does); lines of run() are landing points."""
from pyworkers.thread import ThreadWorker
from pyworkers.process import ProcessWorker
from pyworkers.remote import RemoteWorker
from pyworkers.persistent_thread import PersistentThreadWorker
from pyworkers.persistent_process import PersistentProcessWorker
from pyworkers.persistent_remote import PersistentRemoteWorker

import vtargets


def mkval(spec):
    if spec == 'none':
        return None
    if spec == 'zero':
        return 0
    if spec == 'str':
        return 's'
    if spec == 'list':
        return [1, 2]
    if spec == 'dict':
        return {'k': (1,)}
    if spec == 'point':
        return vtargets.Point(1, 2)
    if spec == 'needsargs':
        return vtargets.NeedsArgs(7, 'here')      # can be pickled by the child, cannot be rebuilt by the parent
    if spec == 'lock':
        import threading
        return threading.Lock()                    # cannot even be pickled by the child
    if isinstance(spec, int):
        return spec
    raise ValueError(spec)


def state_target(values, ending):
    # placeholder target so that the worker is run; the work happens in StatefulMixin.run
    return None


class StatefulMixin:
    def run(self, values, ending):
        seen = repr(self.user_state)            # what this incarnation saw first (taken now: the object may be mutated in place below)
        for v in values:
            if v == 'inplace':
                # mutate the current state object in place and assign the very same object back
                nv = self.user_state
                if isinstance(nv, list):
                    nv.append(9)
                elif isinstance(nv, dict):
                    nv['m'] = 9
            else:
                nv = mkval(v)
            self.user_state = nv                # US_ASSIGN
        if ending == 'raise':
            raise ValueError('end')
        if ending == 'return_lock':
            import threading
            return threading.Lock()             # a result that cannot be sent: the outcome becomes an error, the state can still be reported
        if ending == 'spin':
            # never ends on its own: only a termination request gets the worker out of here
            import time
            try:
                while True:
                    time.sleep(0.002)
            finally:
                pass
        return ('seen', seen)


class SThread(StatefulMixin, ThreadWorker):
    pass


class SProcess(StatefulMixin, ProcessWorker):
    pass


class SRemote(StatefulMixin, RemoteWorker):
    pass


class SPThread(StatefulMixin, PersistentThreadWorker):
    pass


class SPProcess(StatefulMixin, PersistentProcessWorker):
    pass


class SPRemote(StatefulMixin, PersistentRemoteWorker):
    pass


CLASSES = {'thread': SThread, 'process': SProcess, 'remote': SRemote, 'p_thread': SPThread, 'p_process': SPProcess, 'p_remote': SPRemote}


class DyingProcessWorker(ProcessWorker):
    """process worker whose child exits before it reports its identity (what happens e.g. when the target cannot be imported by the child)"""

    def _run(self):
        import os
        os._exit(3)


class ProbeThreadWorker(ThreadWorker):
    """thread worker whose is_alive() is a schedule point: HOOK[0](worker) runs first (used by C19 to create another worker exactly
    while active_children() is evaluating the liveness of a registered one)"""
    HOOK = [None]

    def is_alive(self):
        h = ProbeThreadWorker.HOOK[0]
        if h is not None:
            h(self)
        return super().is_alive()
