"""Case generation, execution and the two oracles (C07, C08) over POOLSIM."""
from collections import Counter

from hypothesis import strategies as st

from core import Out
import poolsim


def _tape_strategy():
    widx = st.integers(0, 2)
    raw = st.lists(st.integers(0, 11), min_size=1, max_size=6)
    burst = st.builds(lambda i, tail: [f'p{i}', f'k{i}'] + tail, widx, st.sampled_from([[], ['s'], ['s', 's'], [0]]))
    burst2 = st.builds(lambda i, j: [f'p{i}', f'p{j}', f'k{i}', 's'], widx, widx)
    stops = st.lists(st.just('s'), min_size=1, max_size=5)
    procs = st.lists(st.builds(lambda i: f'p{i}', widx), min_size=1, max_size=4)
    killnow = st.builds(lambda i: [f'k{i}'], widx)
    seg = st.one_of(raw, burst, burst2, stops, procs, killnow)
    return st.lists(seg, max_size=14).map(lambda segs: [t for s in segs for t in s][:80])


@st.composite
def config(draw, retry_choices=(True,), rr_choices=(True,)):
    nw = draw(st.integers(1, 3))
    n = draw(st.integers(0, 6))
    inputs = list(range(n))
    retry = draw(st.sampled_from(list(retry_choices)))
    if retry and n >= 2 and draw(st.integers(0, 3)) == 0:
        # equal items are legal input and each needs its own result (retry on only: the retry-off oracle speaks about individual inputs)
        inputs = draw(st.lists(st.sampled_from([0, 1, 2]), min_size=2, max_size=6))
        n = len(inputs)
    extra = draw(st.integers(0, 2))
    kills = draw(st.sampled_from([0, 1, 1, 2, 3]))
    poison = {}
    if n and draw(st.integers(0, 3)) == 0:
        for x in draw(st.lists(st.sampled_from(sorted(set(inputs))), max_size=2, unique=True)):
            who = draw(st.sampled_from(['*'] + [str(i) for i in range(nw)]))
            poison.setdefault(who, [])
            if x not in poison[who]:
                poison[who].append(x)
    refuse = []
    if n and draw(st.integers(0, 3)) == 0:
        cand = [(w, x) for w in range(nw) for x in sorted(set(inputs))]
        picked = draw(st.lists(st.sampled_from(cand), max_size=5, unique=True))
        refuse = [list(p) for p in picked]
        # by construction: every input keeps at least one worker that accepts it and is not poisoned by it
        for x in inputs:
            okw = [w for w in range(nw) if [w, x] not in refuse and x not in poison.get('*', []) and x not in poison.get(str(w), [])]
            if not okw and x not in poison.get('*', []):
                cands = [w for w in range(nw) if x not in poison.get(str(w), [])]
                if cands:
                    w = cands[0]
                    refuse = [p for p in refuse if p != [w, x]]
    flaky = []
    if n and draw(st.integers(0, 4)) == 0:
        # transient enqueue failures: the first attempt to hand x to worker w raises, the worker stays alive
        flaky = [list(p) for p in draw(st.lists(st.sampled_from([(w, x) for w in range(nw) for x in sorted(set(inputs))]), min_size=1, max_size=3, unique=True))]
    return {
        'workers': nw, 'inputs': inputs, 'extra': extra, 'kills': kills, 'kill_marker': draw(st.booleans()),
        'poison': poison, 'refuse': refuse, 'flaky': flaky, 'linger': draw(st.integers(0, 3)) == 0, 'linger_checks': draw(st.sampled_from([0, 0, 1, 2, 3, 5])), 'retry': retry,
        'return_results': draw(st.sampled_from(list(rr_choices))),
        'source': draw(st.sampled_from(['iter', 'iter', 'callable'])),
        'idsalt': draw(st.integers(0, 5)),
        'tape': draw(_tape_strategy()),
    }


def execute(case, dfs=False):
    sim = poolsim.Sim(case, dfs=dfs)
    try:
        res = sim.run(case['inputs'], extra=case.get('extra', 0), return_results=case.get('return_results', True),
                      source=case.get('source', 'iter'))
        alive = [w.index for w in sim.workers if w.alive]
        return sim, res, alive
    finally:
        sim.close()


def classify(case, sim, res, out):
    for fl in sim.flags:
        out.label(fl)
    deaths = [e for e in sim.trace if e[0] == 'died']
    if deaths:
        out.label('death')
    if not [w for w in sim.workers if w.alive]:
        out.label('all_dead')
    if len(set(case['inputs'])) < len(case['inputs']):
        out.label('equal_inputs')
        if deaths:
            out.label('equal_inputs_and_death')
    if case.get('refuse'):
        out.label('refusing_enqueue_fn')
        if sim.refused:
            out.label('refusal_happened')
    gp = case.get('poison', {}).get('*', [])
    if gp and any(len(set(sim.poisoned.get(x, []))) == case['workers'] for x in gp):
        out.label('poison_reaches_every_worker')
    if sim.poisoned:
        out.label('poisoned')
    if case.get('extra', 0) >= 1 and case['workers'] >= 2:
        out.label('extra_pending_multi_worker')
    if case.get('source') == 'callable':
        out.label('per_worker_callable_source')
    out.label('end:' + res['kind'])
    out.label('retry_on' if case.get('retry', True) else 'retry_off')
    if not case.get('return_results', True):
        out.label('return_results_off')
    out.nontrivial = bool(deaths) or bool(sim.refused) or (case.get('extra', 0) >= 1 and case['workers'] >= 2) or 'transient_enqueue_failure' in sim.flags
    cfg = {k: v for k, v in case.items() if k != 'tape'}
    out.key = {'cfg': cfg, 'trace': [list(map(str, e)) for e in sim.trace]}
    out.obs = {'end': res['kind'], 'events': len(sim.trace), 'trace_head': [' '.join(map(str, e)) for e in sim.trace[:14]],
               'choices': len(sim.sched.choices)}
    if res['kind'] == 'internal':
        out.obs['internal'] = f"{res['exc']}: {res['msg']} at {res['where']}"


def _multiset_check(values, inputs, out, where):
    """values must be f(x) for x in inputs, each at most as often as x occurs in inputs; returns Counter of x."""
    exp = {poolsim.f(x): x for x in inputs}
    allowed = Counter(inputs)
    cnt = Counter()
    for v in values:
        if v not in exp:
            out.viol('foreign_value', where, f'{v!r} is not the result of any input')
        else:
            cnt[exp[v]] += 1
    for x, c in cnt.items():
        if c > allowed[x]:
            out.viol('duplicate', where, f'result of input {x} appears {c} times, the input {allowed[x]} time(s)')
    return cnt


def _missing(inputs, cnt):
    return sorted((Counter(inputs) - cnt).elements())


def judge_c07(case, sim, res, alive, out):
    kind = res['kind']
    if kind == 'internal':
        out.viol('internal_error:' + res['exc'], res['where'], f"{res['exc']}: {res['msg']}")
    elif kind == 'deadlock':
        out.viol('deadlock', 'wait', 'Pool.run is about to block in wait() with nothing readable and no worker able to make progress')
    elif kind == 'livelock':
        out.viol('livelock', 'loop', 'Pool.run did not finish within the scheduler step budget')
    elif kind == 'return':
        if not case.get('return_results', True):
            vals = [r for _, r in sim.finished_cb]
        else:
            vals = res['value']
            if vals is None and case['inputs'] == []:
                vals = []
            if vals is None:
                out.viol('returned_none', 'return', 'Pool.run returned None with return_results=True')
                return
        cnt = _multiset_check(vals, case['inputs'], out, 'return')
        missing = _missing(case['inputs'], cnt)
        if missing and case.get('retry', True):
            out.viol('missing', 'return', f'normal return without results for inputs {missing}')


def judge_c08(case, sim, res, alive, out):
    kind = res['kind']
    retry = case.get('retry', True)
    rr = case.get('return_results', True)
    delivered = [r for _, r in sim.finished_cb]
    if kind == 'poolerror':
        if alive:
            # a live worker exists.  Only a violation if some live worker would have taken every unfinished input.
            inv = {poolsim.f(x): x for x in case['inputs']}
            remaining = _missing(case['inputs'], Counter(inv[v] for v in delivered if v in inv))
            refuse = set(map(tuple, case.get('refuse', [])))
            willing = [w for w in alive if all((w, x) not in refuse for x in remaining)]
            if willing:
                out.viol('poolerror_with_live_worker', 'refusing_enqueue_fn' if refuse else 'plain',
                         f'PoolError raised while workers {alive} are alive; worker(s) {willing} accept every unfinished input {remaining}')
            else:
                out.label('poolerror_live_but_unwilling')
        part = res['partial']
        if rr:
            if part is None:
                out.viol('partial_results_none', 'poolerror', 'return_results=True but PoolError.partial_results is None')
            else:
                _multiset_check(part, case['inputs'], out, 'partial_results')
                if Counter(part) != Counter(delivered):
                    out.viol('partial_results_mismatch', 'poolerror', f'partial_results {part} != results delivered to callbacks {delivered}')
        else:
            if part is not None:
                out.viol('partial_results_not_none', 'poolerror', 'return_results=False but partial_results is set')
    elif kind == 'return':
        if not rr:
            if res['value'] is not None:
                out.viol('value_not_none', 'return', 'return_results=False but run() returned a value')
            vals = delivered
        else:
            vals = res['value'] if res['value'] is not None else []
            if Counter(vals) != Counter(delivered):
                out.viol('callback_mismatch', 'return', f'returned {vals} but finished callbacks saw {delivered}')
        cnt = _multiset_check(vals, case['inputs'], out, 'return')
        if not retry:
            dead = set(w.index for w in sim.workers if not w.alive)
            for x in case['inputs']:
                if cnt[x]:
                    continue
                takers = set(sim.handed.get(x, [])) | set(sim.failed_handing.get(x, []))
                lost_by_dead = [w for w in takers if w in dead and w not in sim.answered.get(x, [])]
                if sim.answered.get(x):
                    out.viol('answered_but_missing', 'retry_off', f'input {x} was answered by worker {sim.answered[x]} but is missing from the result')
                elif not lost_by_dead:
                    site = 'refused' if sim.refused.get(x) else 'never_handed'
                    out.viol('missing_without_death', site,
                             f'retry off: input {x} missing, handed to {sorted(takers)}, refused by {sim.refused.get(x)}, dead workers {sorted(dead)}')


def run(case, which, dfs=False):
    out = Out()
    sim, res, alive = execute(case, dfs=dfs)
    classify(case, sim, res, out)
    if which == 'C07':
        judge_c07(case, sim, res, alive, out)
    else:
        judge_c08(case, sim, res, alive, out)
    return out, sim


def simplify(case):
    t = case.get('tape', [])
    for i in range(len(t)):
        c = dict(case); c['tape'] = t[:i] + t[i + 1:]
        yield c
    if len(case['inputs']) > 0:
        c = dict(case); c['inputs'] = case['inputs'][:-1]
        yield c
    if case['workers'] > 1:
        c = dict(case); c['workers'] = case['workers'] - 1
        yield c
    for k in ('extra', 'kills'):
        if case.get(k, 0) > 0:
            c = dict(case); c[k] = case[k] - 1
            yield c
    if case.get('refuse'):
        for i in range(len(case['refuse'])):
            c = dict(case); c['refuse'] = case['refuse'][:i] + case['refuse'][i + 1:]
            yield c
    if case.get('poison'):
        c = dict(case); c['poison'] = {}
        yield c
    if case.get('flaky'):
        c = dict(case); c['flaky'] = case['flaky'][:-1]
        yield c
    if case.get('linger'):
        c = dict(case); c['linger'] = False
        yield c
    if case.get('linger_checks'):
        c = dict(case); c['linger_checks'] = case['linger_checks'] - 1
        yield c
    if case.get('source') == 'callable':
        c = dict(case); c['source'] = 'iter'
        yield c
    if case.get('idsalt'):
        c = dict(case); c['idsalt'] = 0
        yield c


# ---------------------------------------------------------------------------
# exhaustive stateless DFS over all schedules of a configuration
# ---------------------------------------------------------------------------

def dfs_schedules(cfg, which, cap=None):
    """Yield (case, out) for every distinct schedule of configuration cfg (tape = explicit choice vector)."""
    vec = []
    n = 0
    while True:
        case = dict(cfg)
        case['tape'] = list(vec)
        out, sim = run(case, which, dfs=True)
        n += 1
        yield case, out
        ch = sim.sched.choices
        # next vector in lexicographic order
        i = len(ch) - 1
        while i >= 0 and ch[i][1] + 1 >= ch[i][0]:
            i -= 1
        if i < 0:
            return
        vec = [v for _, v in ch[:i]] + [ch[i][1] + 1]
        if cap and n >= cap:
            return


# ---------------------------------------------------------------------------
# histories: several runs on one pool with restarts / kills / new workers in between (C09 bookkeeping part, C08 soundness per run)
# ---------------------------------------------------------------------------

@st.composite
def history_config(draw):
    nw = draw(st.integers(1, 3))
    steps = []
    nruns = 0
    for _ in range(draw(st.integers(2, 6))):
        kind = draw(st.sampled_from(['run', 'run', 'run', 'run', 'restart', 'kill', 'add', 'run_aborted']))
        if kind == 'run':
            n = draw(st.integers(0, 5))
            steps.append(['run', [100 * (nruns + 1) + j for j in range(n)], draw(st.integers(0, 2)), draw(st.sampled_from([0, 0, 1, 2]))])
            if n and draw(st.integers(0, 3)) == 0:
                # a run whose user enqueue_fn refuses some (worker, input) pairs - what it leaves behind must not leak into later runs
                # (round-4 seed C07-m8: refused inputs were counted as handed over, the next run dropped genuine results as stale and hung)
                steps[-1].append(draw(st.lists(st.tuples(st.integers(0, 3), st.integers(0, n - 1)).map(list), min_size=1, max_size=2)))
            nruns += 1
        elif kind == 'run_aborted':
            # the user's input source raises in the middle of a run (the exception is the user's business; the pool must stay usable)
            n = draw(st.integers(1, 5))
            steps.append(['run_aborted', [100 * (nruns + 1) + 50 + j for j in range(n)], draw(st.integers(0, 2)), draw(st.integers(0, n))])
        elif kind == 'kill':
            steps.append(['kill', draw(st.integers(0, 3))])
        else:
            steps.append([kind])
    if nruns == 0:
        steps.append(['run', [101, 102], 0, 1])
    return {'workers': nw, 'history': steps, 'kill_marker': draw(st.booleans()), 'retry': True, 'idsalt': draw(st.integers(0, 5)),
            'linger': draw(st.booleans()), 'tape': draw(_tape_strategy())}


def run_history(case):
    out = Out()
    sim = poolsim.Sim(dict(case, kills=0, inputs=[], poison={}, refuse=[]))
    known_dead = set()       # SimWorker incarnation ids the pool has been told about (died callback) in an earlier run
    after_abort = False      # an earlier run was aborted by its input source with inputs / results still outstanding
    runs = []
    try:
        for step in case['history']:
            what = step[0]
            alive_now = [w for w in sim.workers if w.alive]
            lingering_at_start = [w for w in sim.workers if w.lingering]
            if what == 'run_aborted':
                if alive_now:
                    out.label('run_aborted_by_input_source')
                    res = sim.run(step[1], extra=step[2], fail_after=step[3])
                    if res['kind'] == 'internal':
                        out.viol('internal_error:' + res['exc'], res['where'] + ':aborted_run', f"{res['exc']}: {res['msg']}")
                    elif res['kind'] in ('deadlock', 'livelock'):
                        out.viol(res['kind'], 'aborted_run', 'Pool.run with a failing input source does not terminate')
                    if any(w.queue for w in sim.workers if w.alive) or any(w.sent > w.read for w in sim.workers):
                        after_abort = True
                        out.label('inputs_or_results_outstanding_after_aborted_run')
                for w in lingering_at_start:
                    w.reap()
                continue
            if what != 'run':
                for w in lingering_at_start:       # by the time anything else is done with the pool the dead workers have really exited
                    w.reap()
            elif lingering_at_start:
                out.label('run_starts_with_dead_worker_still_winding_down')
            if what == 'run':
                inputs, extra, kills = step[1], step[2], step[3]
                if not alive_now:
                    # nobody can work: the run can only end by PoolError (a normal return would have to hold every result)
                    out.label('run_without_live_worker')
                sim.kills_left = kills
                ids_before = {w.index: w.id for w in sim.workers}
                enq_before = {w.index: 0 for w in sim.workers}
                for w in sim.workers:
                    w.enqueues_this_run = 0
                pre_dead_known = set(known_dead)
                trace_start = len(sim.trace)
                refuse_spec = step[4] if len(step) > 4 else []
                sim.refuse = set((w_ % max(1, len(sim.workers)), inputs[j_]) for w_, j_ in refuse_spec if j_ < len(inputs))
                refusing = bool(sim.refuse)
                res = sim.run(inputs, extra=extra, use_enqueue_fn=True if refusing else None)
                sim.refuse = set()
                if refusing:
                    out.label('run_with_refusing_enqueue_fn')
                    if sim.refused:
                        out.label('refusal_happened_in_history')
                for w in lingering_at_start:
                    w.reap()
                seg = sim.trace[trace_start:]
                kind = res['kind']
                runs.append(kind)
                site = 'run#%d' % len(runs) + (':after_aborted_run' if after_abort else '')
                # enqueue attempts on workers whose death the pool already handled in an earlier run
                for ev in seg:
                    if ev[0] in ('enqueued', 'enqueue_raised', 'enqueued_to_lingering'):
                        w = sim.workers[ev[1]]
                        if ids_before[w.index] in pre_dead_known:
                            out.viol('work_handed_to_known_dead_worker', site, f'worker {w.index} died in an earlier run (the pool was told) and was still offered {ev[2]}')
                            break
                if kind == 'internal':
                    out.viol('internal_error:' + res['exc'], res['where'], f"{site}: {res['exc']}: {res['msg']}")
                elif kind in ('deadlock', 'livelock'):
                    out.viol(kind, site, 'Pool.run does not terminate in a later run of the same pool')
                elif kind == 'return':
                    vals = res['value'] if res['value'] is not None else []
                    cnt = _multiset_check(vals, inputs, out, site)
                    missing = _missing(inputs, cnt)
                    if missing:
                        out.viol('missing', site, f'run returned normally without results for {missing} (results {vals})')
                    # every worker that was alive at entry and stayed alive gets work when there is enough of it
                    if len(inputs) >= len(alive_now) and not any(e[0] == 'died' for e in seg) and not refusing:
                        idle = [w.index for w in alive_now if w.enqueues_this_run == 0]
                        if idle:
                            out.viol('live_worker_got_no_work', site + (':after_restart' if 'restarted' in [e[0] for e in sim.trace[:trace_start]] else ''),
                                     f'workers {idle} were alive for the whole run but received none of the {len(inputs)} inputs')
                elif kind == 'poolerror':
                    alive = [w.index for w in sim.workers if w.alive]
                    # (a run whose enqueue_fn refused something is judged by C08's single-run oracle - open findings F-C08-1/2 live there; here
                    # it only prepares the state the NEXT run starts from)
                    if alive and not refusing:
                        out.viol('poolerror_with_live_worker', site + (':after_restart' if any(e[0] == 'restarted' for e in sim.trace[:trace_start]) else ''),
                                 f'PoolError in {site} while workers {alive} are alive (no enqueue_fn involved)')
                    _multiset_check(res['partial'] or [], inputs, out, site + ':partial')
                for i in sim.died_cb:
                    known_dead.add(sim.workers[i].id if not sim.workers[i].alive else None)
                for w in sim.workers:
                    if not w.alive and w.died_by in ('killed', 'poison') and any(e[0] == 'died' and e[1] == w.index for e in seg) and w.index in sim.died_cb:
                        known_dead.add(w.id)
            elif what == 'kill':
                if alive_now:
                    w = alive_now[step[1] % len(alive_now)]
                    w._die(marker=case.get('kill_marker', False), why='killed', linger=False)
                    out.label('kill_between_runs')
            elif what == 'restart':
                n_before = len(sim.pool.workers)
                try:
                    sim.pool.restart_workers(timeout=0)
                except Exception as e:
                    out.viol('restart_workers_raised:' + type(e).__name__, 'restart', repr(e)[:200])
                    break
                out.label('restart_workers')
                if len(sim.pool.workers) != n_before:
                    out.viol('worker_count_changed_by_restart', 'restart', f'{n_before} -> {len(sim.pool.workers)}')
                if len(set(sim.pool._get_all_workers_ids())) != n_before or any(not w.alive for w in sim.workers):
                    out.viol('restart_left_dead_or_duplicate_worker', 'restart', f'ids {list(sim.pool._get_all_workers_ids())}, alive {[w.alive for w in sim.workers]}')
            elif what == 'add':
                i = len(sim.workers)
                sim.pool.add_worker(lambda i=i, **kw: poolsim.SimWorker(sim, i, **kw), userid=i)
                out.label('add_worker_between_runs')
        if len([r for r in runs]) >= 2:
            out.label('runs>=2')
        out.nontrivial = len(runs) >= 2 or 'restart_workers' in out.labels or 'kill_between_runs' in out.labels
        out.key = {'cfg': {k: v for k, v in case.items() if k != 'tape'}, 'trace': [list(map(str, e)) for e in sim.trace]}
        out.obs = {'runs': runs, 'events': len(sim.trace), 'trace_head': [' '.join(map(str, e)) for e in sim.trace[:16]]}
    finally:
        sim.close()
    return out


def simplify_history(case):
    h = case['history']
    for i in range(len(h) - 1, -1, -1):
        if len(h) > 1:
            yield dict(case, history=h[:i] + h[i + 1:])
    t = case.get('tape', [])
    for i in range(len(t)):
        yield dict(case, tape=t[:i] + t[i + 1:])
    if case['workers'] > 1:
        yield dict(case, workers=case['workers'] - 1)
    if case.get('linger'):
        yield dict(case, linger=False)
    for i, s_ in enumerate(h):
        if s_[0] == 'run' and len(s_[1]) > 1:
            yield dict(case, history=h[:i] + [['run', s_[1][:-1], s_[2], s_[3]]] + h[i + 1:])
