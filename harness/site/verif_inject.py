"""INJECT child side (DESIGN.md 3.1, appendix B): line tracer that lands terminate / kill / pause at the n-th line event
of the work thread of the worker named in <dir>/<name>.spec.json."""
import json
import os
import signal
import sys
import threading
import time

DIR = os.environ.get('VERIF_INJECT_DIR')
ENTRY = {('thread.py', '_run'), ('process.py', '_run'), ('remote.py', '_run_backend'), ('remote.py', '_run_frontend'), ('process.py', '_ctrl_fn')}
SPIN = float(os.environ.get('VERIF_INJECT_SPIN', '1.5'))

_armed = {}      # thread ident -> state dict
_lock = threading.Lock()


def _interesting(filename):
    return ('/pyworkers/' in filename and '/site-packages/' not in filename) or filename.endswith(('vtargets.py', 'vworkers.py'))


def _write(path, obj):
    try:
        tmp = path + '.tmp%d' % threading.get_ident()
        with open(tmp, 'w') as f:
            json.dump(obj, f)
        os.replace(tmp, path)
    except (OSError, ValueError, TypeError):
        pass


def _global(frame, event, arg):
    if event != 'call':
        return None
    code = frame.f_code
    ident = threading.get_ident()
    fn = code.co_filename
    entry = (os.path.basename(fn), code.co_name) in ENTRY and '/pyworkers/' in fn
    st = _armed.get(ident)
    if st is not None and not entry:      # (thread idents are reused: an entry function always starts a new worker)
        if st.get('off'):
            return None
        if not _interesting(code.co_filename):
            return None
        if st['spec'].get('granularity') == 'opcode':
            frame.f_trace = st['local']          # (3.12: opcode events are only generated if f_trace is already set)
            frame.f_trace_opcodes = True
        return st['local']
    if entry:
        with _lock:
            _armed.pop(ident, None)
        try:
            name = frame.f_locals['self']._name
        except (KeyError, AttributeError):
            return None
        if not name or not isinstance(name, str):
            return None
        if code.co_name == '_run_frontend':
            name = name + '.front'      # the parent-side forwarding thread has its own spec
        elif code.co_name == '_ctrl_fn':
            name = name + '.ctrl'       # so has the child-side control thread of a process worker
        spec_path = os.path.join(DIR, name + '.spec.json')
        try:
            with open(spec_path) as f:
                spec = json.load(f)
        except (OSError, ValueError):
            return None
        st = {'spec': spec, 'name': name, 'count': -1, 'fired': False, 'trace_f': None, 'ident': ident}
        if spec.get('trace', True):
            try:
                st['trace_f'] = open(os.path.join(DIR, name + '.trace'), 'a', buffering=1)
            except OSError:
                pass
        st['local'] = _make_local(st)
        with _lock:
            _armed[ident] = st
        if spec.get('granularity') == 'opcode':
            frame.f_trace = st['local']
            frame.f_trace_opcodes = True
        return st['local']
    return None


def _make_local(st):
    spec = st['spec']
    mode = spec.get('mode', 'census')
    target_n = spec.get('n', -1)
    gran = spec.get('granularity', 'line')
    name = st['name']

    def local(frame, event, arg):
        if event != gran:
            if event == 'return' and frame.f_code.co_name in ('_run', '_run_backend') and st['trace_f'] is not None \
                    and os.path.basename(frame.f_code.co_filename) in ('thread.py', 'process.py', 'remote.py'):
                try:
                    st['trace_f'].close()
                except (OSError, ValueError):
                    pass
                st['trace_f'] = None
            return local
        st['count'] += 1
        c = st['count']
        code = frame.f_code
        if st['trace_f'] is not None:
            try:
                st['trace_f'].write('%d %s %s %d %d\n' % (c, os.path.basename(code.co_filename), code.co_name, frame.f_lineno,
                                                         frame.f_lasti if gran == 'opcode' else -1))
            except (OSError, ValueError):
                pass
        if c == target_n and not st['fired'] and mode != 'census':
            st['fired'] = True
            stack = []
            f = frame
            while f is not None and len(stack) < 12:
                if _interesting(f.f_code.co_filename):
                    stack.append([os.path.basename(f.f_code.co_filename), f.f_code.co_name, f.f_lineno])
                f = f.f_back
            info = {'n': c, 'file': os.path.basename(code.co_filename), 'func': code.co_name, 'line': frame.f_lineno,
                    'pid': os.getpid(), 'ident': threading.get_ident(), 'native_id': threading.get_native_id(), 'stack': stack}
            if mode == 'kill':
                _write(os.path.join(DIR, name + '.reached'), info)
                if st['trace_f'] is not None:
                    st['trace_f'].flush()
                os.kill(os.getpid(), getattr(signal, spec.get('sig', 'SIGKILL')))
                time.sleep(0.2)    # SIGTERM with a handler: give it a moment, then go on
                return local
            if mode == 'pause':
                _write(os.path.join(DIR, name + '.reached'), info)
                go = os.path.join(DIR, name + '.go')
                end = time.monotonic() + float(spec.get('max_pause', 10))
                while not os.path.exists(go) and time.monotonic() < end:
                    time.sleep(0.001)
                return local
            if mode == 'terminate':
                _write(os.path.join(DIR, name + '.reached'), info)
                end = time.monotonic() + SPIN
                try:
                    while time.monotonic() < end:
                        time.sleep(0.0005)
                except BaseException as e:
                    info['delivered'] = type(e).__name__
                    _write(os.path.join(DIR, name + '.delivered'), info)
                    st['off'] = True
                    raise
                _write(os.path.join(DIR, name + '.notdelivered'), info)
        return local

    return local


def install():
    if not DIR:
        return
    threading.settrace(_global)
    sys.settrace(_global)
