# Imported automatically by every Python process that has this directory on PYTHONPATH.
# Active only when the harness asks for it (VERIF_INJECT_DIR); never raises.
import os
if os.environ.get('VERIF_INJECT_DIR'):
    try:
        import verif_inject
        verif_inject.install()
    except Exception:      # a broken injector must not change the behaviour of the process
        pass
