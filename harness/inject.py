"""INJECT harness side: spec files, rendezvous with the traced child, census cache."""
import json
import os
import time

DIR = os.environ.get('VERIF_INJECT_DIR')


def available():
    return bool(DIR) and os.path.isdir(DIR)


def arm(name, mode, n=-1, sig='SIGKILL', granularity='line', trace=True):
    spec = {'mode': mode, 'n': n, 'sig': sig, 'granularity': granularity, 'trace': trace}
    with open(os.path.join(DIR, name + '.spec.json'), 'w') as f:
        json.dump(spec, f)


def _read_json(path):
    try:
        with open(path) as f:
            return json.load(f)
    except (OSError, ValueError):
        return None


def wait_reached(name, timeout):
    p = os.path.join(DIR, name + '.reached')
    end = time.monotonic() + timeout
    while time.monotonic() < end:
        if os.path.exists(p):
            r = _read_json(p)
            if r is not None:
                return r
        time.sleep(0.0005)
    return None


def delivered(name, timeout=0.5):
    end = time.monotonic() + timeout
    while True:
        d = _read_json(os.path.join(DIR, name + '.delivered'))
        if d is not None:
            return d
        if os.path.exists(os.path.join(DIR, name + '.notdelivered')) or time.monotonic() > end:
            return None
        time.sleep(0.001)


def release(name):
    open(os.path.join(DIR, name + '.go'), 'w').close()


def trace(name):
    """list of (index, file, func, line, lasti)"""
    out = []
    try:
        with open(os.path.join(DIR, name + '.trace')) as f:
            for l in f:
                p = l.split()
                if len(p) == 5:
                    out.append((int(p[0]), p[1], p[2], int(p[3]), int(p[4])))
    except OSError:
        pass
    return out


def cleanup(name):
    for ext in ('.spec.json', '.reached', '.delivered', '.notdelivered', '.go', '.trace'):
        try:
            os.unlink(os.path.join(DIR, name + ext))
        except OSError:
            pass
