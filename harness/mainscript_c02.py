"""Template run as a real main script: target and value classes live in __main__ (C02, C01 main-script cases).
usage: python mainscript_c02.py <server host> <server port> <json spec>   -> prints one JSON line"""
import json
import sys


class MainPoint:
    def __init__(self, a, b):
        self.a = a
        self.b = b

    def __eq__(self, o):
        return type(o).__name__ == 'MainPoint' and (o.a, o.b) == (self.a, self.b)

    def __repr__(self):
        return f'MainPoint({self.a!r}, {self.b!r})'


class MainError(Exception):
    pass


def main_target(mode, x):
    if mode == 'point':
        return MainPoint(x, [x, x])
    if mode == 'raise':
        raise MainError('main', x)
    if mode == 'plain':
        return ('plain', x)
    raise RuntimeError(mode)


def _run(host, spec):
    sys.path.insert(0, '/verif/harness')
    from core import bounded, Blocked
    from pyworkers.thread import ThreadWorker
    from pyworkers.process import ProcessWorker
    from pyworkers.remote import RemoteWorker
    out = {}
    try:
        direct = ('ret', repr(main_target(spec['mode'], spec['x'])))
    except Exception as e:
        direct = ('exc', type(e).__name__, repr(e.args))
    out['direct'] = direct
    for kind, cls, kw in (('thread', ThreadWorker, {}), ('process', ProcessWorker, {}), ('remote', RemoteWorker, {'host': host})):
        try:
            w = bounded(cls, 20, main_target, args=[spec['mode'], spec['x']], **kw)
            ok = bounded(w.wait, 25)
            he = w.has_error
            res = w.result
            err = w.error
            out[kind] = {'wait': ok, 'has_error': he, 'result': repr(res) if res is not None else None,
                         'error': [type(err).__name__, repr(err.args)] if err is not None else None}
        except Blocked:
            out[kind] = {'blocked': True}
        except BaseException as e:
            out[kind] = {'raised': type(e).__name__, 'msg': str(e)[:100]}
    return out


if __name__ == '__main__':
    host = (sys.argv[1], int(sys.argv[2]))
    spec = json.loads(sys.argv[3])
    print('RESULT ' + json.dumps(_run(host, spec)), flush=True)
