"""Trace equivalence between poolsim.SimWorker and the real persistent workers (DESIGN.md 3.2)."""
import os
import signal
import time

from pyworkers.utils import Pipe
import poolsim
import vtargets


def _drain(endpoint, limit=10.0):
    """Raw messages until EOF; (msgs, 'eof'|'timeout')."""
    import multiprocessing.connection as mpc
    msgs = []
    end = time.monotonic() + limit
    while True:
        left = end - time.monotonic()
        if left <= 0:
            return msgs, 'timeout'
        if not mpc.wait([endpoint], left):
            return msgs, 'timeout'
        try:
            m = endpoint.recv()
        except (EOFError, OSError):
            return msgs, 'eof'
        msgs.append(m)


def real_trace(kind, script, host=None):
    from pyworkers.persistent_thread import PersistentThreadWorker
    from pyworkers.persistent_process import PersistentProcessWorker
    from pyworkers.persistent_remote import PersistentRemoteWorker
    cls = {'thread': PersistentThreadWorker, 'process': PersistentProcessWorker, 'remote': PersistentRemoteWorker}[kind]
    pipe = Pipe()
    kw = {'host': host} if kind == 'remote' else {}
    w = cls(vtargets.conf_target, results_pipe=pipe, **kw)
    try:
        items = list(script['items'])
        kill_after = script.get('kill_after')
        msgs = []
        if kill_after is not None:
            for x in items[:kill_after]:
                w.enqueue(x)
            import multiprocessing.connection as mpc
            while len(msgs) < kill_after:
                if not mpc.wait([pipe.parent_end], 10):
                    return None
                msgs.append(pipe.parent_end.recv())
            os.kill(w.pid, signal.SIGKILL)
            w.wait(5)
        else:
            for x in items:
                try:
                    w.enqueue(x)
                except Exception:
                    # an earlier (poison) item has already killed the worker: what follows would never be looked at anyway
                    break
            w.wait(10)
        if kind != 'thread':
            pass
        rest, how = _drain(pipe.parent_end)
        msgs += rest
        return [(m[0], m[1], m[2]) for m in msgs] + [how]
    finally:
        try:
            w.terminate(timeout=1)
        except Exception:
            pass
        for e in (pipe.parent_end, pipe.child_end):
            try:
                e.close()
            except OSError:
                pass


def sim_trace(kind, script):
    class _S:
        case = {}
        workers = []
        flaky = frozenset()
        linger = False
        linger_checks = 0
        flags = set()
        def log(self, *a): pass
        def note_handed(self, *a): pass
        def note_failed_handing(self, *a): pass
        def note_answered(self, *a): pass
        def note_poisoned(self, *a): pass
        def note_death(self, *a): pass
        def at_enqueue(self, *a): pass
        def is_poison(self, w, x): return x == 'POISON'
    sim = _S()
    pipe = Pipe()
    w = poolsim.SimWorker(sim, 0, results_pipe=pipe)
    items = list(script['items'])
    kill_after = script.get('kill_after')
    if kill_after is not None:
        for x in items[:kill_after]:
            w.enqueue(x)
            w.process_one()
        w._die(marker=(kind == 'remote'), why='killed')
    else:
        for x in items:
            w.enqueue(x)
        while w.alive and w.queue:
            w.process_one()
        w.close()
    msgs, how = _drain(pipe.parent_end, 2)
    pipe.parent_end.close()
    return [(m[0], m[1], m[2]) for m in msgs] + [how]


def scripts(n):
    out = []
    base = [
        {'items': []}, {'items': [1]}, {'items': [1, 2, 3]}, {'items': ['POISON']}, {'items': [1, 'POISON', 3]},
        {'items': [1, 2, 'POISON']}, {'items': [1, 2, 3], 'kill_after': 0}, {'items': [1, 2, 3], 'kill_after': 2},
        {'items': [5, 6, 7, 8], 'kill_after': 4}, {'items': [1, 2, 3, 4, 5, 6]},
    ]
    i = 0
    while len(out) < n:
        out.append(base[i % len(base)])
        i += 1
    return out
