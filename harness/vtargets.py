"""Importable, deterministic, picklable targets used by the checks (children import this module by name)."""
import os
import signal
import threading
import time


def echo(*args, **kwargs):
    return (args, kwargs) if kwargs else (args[0] if len(args) == 1 else args)


def sq(x):
    return x * x


def conf_target(x):
    if x == 'POISON':
        raise ValueError('poison')
    return ('r', x)


class Custom(Exception):
    pass


class NeedsArgs(Exception):
    """exception whose constructor requires two arguments: cannot be rebuilt from .args by pickle"""

    def __init__(self, a, b):
        super().__init__(f'{a}-{b}')
        self.a = a
        self.b = b


class Point:
    def __init__(self, x, y):
        self.x = x
        self.y = y

    def __eq__(self, o):
        return type(o) is Point and (o.x, o.y) == (self.x, self.y)

    def __hash__(self):
        return hash((self.x, self.y))

    def __repr__(self):
        return f'Point({self.x!r}, {self.y!r})'


# ---------------------------------------------------------------------------
# INJECT scenarios (line events in this file are landing points too)
# ---------------------------------------------------------------------------

def quick_return(v):
    r = ('ok', v)
    return r


def raise_own(a, b):
    e = ValueError('own', a, b)
    raise e


def loop_finally(marker, rounds=3):
    """Python loop inside try/finally; the finally block records which thread ran it."""
    try:                                        # LF_TRY_BEGIN
        i = 0
        while i < rounds:
            i += 1
            x = i * 2
        r = ('done', i)                         # LF_TRY_END
    finally:
        with open(marker, 'w') as f:
            f.write('%d %d %d' % (os.getpid(), threading.get_ident(), threading.get_native_id()))
    return r


def spin_finally(marker):
    """never returns on its own: only an exception gets it out of the loop; finally records the thread"""
    try:                                        # SF_TRY_BEGIN
        i = 0
        while True:
            i += 1
            time.sleep(0.0005)                  # SF_TRY_END
    finally:
        with open(marker, 'w') as f:
            f.write('%d %d %d' % (os.getpid(), threading.get_ident(), threading.get_native_id()))


def echo_item(x):
    y = ('r', x)
    return y


def item_or_raise(x, tag=None):
    if tag is not None:
        return ('r', x, tag)
    if x == 'POISON':
        raise ValueError('poison item')
    if x == 'STUCK':
        # never answers and swallows every exception thrown at it: only a forced terminate ends the worker (SIGTERM is not blocked)
        end = time.monotonic() + 60
        while time.monotonic() < end:
            try:
                time.sleep(0.02)
            except Exception:
                pass
        return ('r', 'unstuck')
    if x == 'BIG':
        return ('r', 'B' * 100000)      # a partial result larger than 64 KiB
    if x == 'HUGE':
        return ('r', 'H' * (8 << 20))   # far larger than any pipe buffer: the child stays blocked in write() until the parent reads
    if x == 'UNSENDABLE':
        return threading.Lock()     # cannot even be pickled by the child
    if x == 'UNPICKLABLE':
        return NeedsArgs(1, 2)      # can be sent, cannot be rebuilt by the receiver (constructor needs two arguments)
    y = ('r', x)
    return y


def swallow_everything(marker=None, started=None):
    """uncooperative target: keeps running whatever exception is thrown at it (until the escape-hatch file appears)"""
    if started:
        open(started, 'w').close()
    while not (marker and os.path.exists(marker)):
        try:
            while not (marker and os.path.exists(marker)):
                time.sleep(0.01)
        except BaseException:
            continue
    return 'released'


def sleep_forever(started=None):
    if started:
        open(started, 'w').close()
    time.sleep(100000)


def hold_gil(started=None):
    if started:
        open(started, 'w').close()
    return sum(range(10 ** 11))


def big_after_start(n, started=None):
    """returns a result far bigger than the pipe buffer: the child blocks half way through handing it over until somebody reads"""
    if started:
        open(started, 'w').close()
    return make_bytes(n)


def stop_self(started=None):
    if started:
        open(started, 'w').close()
    os.kill(os.getpid(), signal.SIGSTOP)
    # (if somebody continues the process it goes on cooperatively)
    while True:
        time.sleep(0.005)


def coop_loop(seconds=100000, started=None):
    if started:
        open(started, 'w').close()
    end = time.time() + seconds
    while time.time() < end:
        time.sleep(0.005)
    return 'finished'


def make_bytes(n):
    return (bytes(range(251)) * (n // 251 + 1))[:n]


def ret_value(v):
    return v


def slow_ret(seconds, v):
    """ordinary long-running work: nothing happens on any connection for `seconds`"""
    time.sleep(seconds)
    return ('slow', v)


def raise_exc(kind, args):
    if kind == 'ValueError':
        raise ValueError(*args)
    if kind == 'KeyError':
        raise KeyError(*args)
    if kind == 'Custom':
        raise Custom(*args)
    if kind == 'NeedsArgs':
        raise NeedsArgs(1, 2)
    if kind == 'Unpicklable':
        e = Custom('unpicklable attr')
        e.lock = threading.Lock()
        raise e
    if kind == 'KeyboardInterrupt':
        raise KeyboardInterrupt()
    if kind == 'SystemExit':
        raise SystemExit(3)
    import builtins
    cls = getattr(builtins, kind, None)
    if isinstance(cls, type) and issubclass(cls, BaseException):
        raise cls(*args)
    raise RuntimeError('unknown kind')


def echo_and_mutate(*args, **kwargs):
    """returns a deep snapshot of what it received, then mutates every mutable argument (so stale defaults would show)"""
    import copy
    snap = (copy.deepcopy(args), copy.deepcopy(kwargs))
    for a in list(args) + list(kwargs.values()):
        if isinstance(a, list):
            a.append('MUT')
        elif isinstance(a, dict):
            a['MUT'] = True
    return snap


def ret_spec(spec, *args, **kwargs):
    if spec == 'none':
        return None
    if spec == 'false':
        return False
    if spec == 'zero':
        return 0
    if spec == 'empty':
        return []
    if spec == 'big':
        return make_bytes(1 << 20)
    return spec


def echo2(a, b, escape=None):
    """persistent target for C17: a is normally replaced by the enqueued value, b stays the default"""
    if a == 'SLOW':
        time.sleep(0.4)
    elif a == 'POISON':
        raise ValueError('poison item')
    elif a == 'SWALLOW':
        return swallow_everything(escape)
    elif a == 'UNREADABLE':
        return NeedsArgs(1, 2)      # a result the parent cannot rebuild
    return ('r', a, b)


def linger(started=None, seconds=40):
    """returns at once but leaves a non-daemon thread behind: the result is delivered, the child process stays alive"""
    threading.Thread(target=time.sleep, args=(seconds,)).start()
    if started:
        open(started, 'w').close()
    return 'lingering'


def linger_then_raise(x=None, seconds=25):
    """the work fails on its first input (the worker announces its death) but a non-daemon thread keeps the child process alive afterwards
    (until the file named by VERIF_ESCAPE appears)"""
    escape = os.environ.get('VERIF_ESCAPE')

    def keep():
        end = time.monotonic() + seconds
        while time.monotonic() < end and not (escape and os.path.exists(escape)):
            time.sleep(0.02)
    threading.Thread(target=keep).start()
    raise ValueError('failing after leaving a thread behind')


def hold_until(path, value=None):
    """cooperative: waits until the file exists, then returns"""
    while not os.path.exists(path):
        time.sleep(0.004)
    return ('held', value)


def ctx_t1(x, k=0):
    if x == 'SLEEP':
        time.sleep(600)      # blocked in a C call: does not react to a polite termination request
    return ('t1', x, k)


def ctx_t2(x, k=0):
    if x == 'SLEEP':
        time.sleep(600)
    return ('t2', x, k)


def pool_item(x):
    """REALPOOL target: x = [value, sleep_ms, poison]; returns ('r', value)"""
    v, ms, poison = x
    if ms:
        time.sleep(ms / 1000.0)
    if poison:
        raise ValueError('poison input')
    return ('r', v)


def _slow_make(delay):
    time.sleep(delay)
    return SlowLoad(delay)


class SlowLoad:
    """a value that is cheap to create and to pickle but slow to UNpickle (the receiving side sleeps `delay` seconds)"""

    def __init__(self, delay):
        self.delay = delay

    def __reduce__(self):
        return (_slow_make, (self.delay,))

    def __eq__(self, o):
        return type(o) is SlowLoad and o.delay == self.delay

    def __repr__(self):
        return f'SlowLoad({self.delay})'


def ret_slowload(delay):
    return SlowLoad(delay)


def gated_echo(x, gate):
    """waits until the gate file exists, then answers"""
    end = time.time() + 20
    while not os.path.exists(gate) and time.time() < end:
        time.sleep(0.002)
    return ('r', x)


def echo_and_mutate_deep(*args, **kwargs):
    """like echo_and_mutate but also mutates nested lists/dicts (depth <= 3)"""
    import copy
    if args and isinstance(args[0], str) and args[0] == 'POISON':
        raise ValueError('poison item')
    snap = (copy.deepcopy(args), copy.deepcopy(kwargs))

    def mut(a, d):
        if isinstance(a, list):
            for x in list(a):
                if d < 3:
                    mut(x, d + 1)
            a.append('MUT')
        elif isinstance(a, dict):
            for x in list(a.values()):
                if d < 3:
                    mut(x, d + 1)
            a['MUT'] = True
    for a in list(args) + list(kwargs.values()):
        mut(a, 0)
    return snap
