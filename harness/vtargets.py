"""Importable, deterministic, picklable targets used by the checks (children import this module by name)."""
import os
import signal
import threading
import time


def echo(*args, **kwargs):
    return (args, kwargs) if kwargs else (args[0] if len(args) == 1 else args)


def sq(x):
    return x * x


def conf_target(x):
    if x == 'POISON':
        raise ValueError('poison')
    return ('r', x)


class Custom(Exception):
    pass


class NeedsArgs(Exception):
    """exception whose constructor requires two arguments: cannot be rebuilt from .args by pickle"""

    def __init__(self, a, b):
        super().__init__(f'{a}-{b}')
        self.a = a
        self.b = b


class Point:
    def __init__(self, x, y):
        self.x = x
        self.y = y

    def __eq__(self, o):
        return type(o) is Point and (o.x, o.y) == (self.x, self.y)

    def __hash__(self):
        return hash((self.x, self.y))

    def __repr__(self):
        return f'Point({self.x!r}, {self.y!r})'
