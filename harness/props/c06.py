"""C06 - a persistent result stream is a correct prefix and always ends, whatever happens (engine INJECT)."""
from hypothesis import strategies as st

from core import Out
import injcases as IC

ID = 'C06'
LEVEL = 'fault_enumeration'
INJECT = True
RULE = ('case = (persistent worker class, 0-5 items of which one may be a poison item that makes the target raise, close or not, ending {graceful terminate at the '
        'n-th traced line of the child loop, SIGKILL/SIGTERM at the n-th line (process/remote), own end, forced terminate of a child stuck in an item while swallowing the termination exception, the remote host vanishing after k answers (control connection reset or closed, data connection silent for ever; played by the harness) followed by terminate(t, force=True), SIGKILL of the remote child while the parent-side forwarding thread is held at its m-th traced line}, results pipe {default, caller-supplied Pipe() as the '
        'Pool does}, consumer {reads after death, already iterating results_iter() (and hence blocked in next_result()) when the end comes}). Oracle: the values read after death are exactly E[:k] of the expected sequence; next_result() then raises queue.Empty and results_iter() '
        'stops (blocking is the violation); on a supplied pipe a multiplexing reader gets an end marker or EOF and the raw counters are 1..k; a worker that ended '
        'by its own choice delivered all of E. Non-trivial = landing confirmed and >=1 item enqueued; distinct = distinct (kind, items, close, pipe, ending, n).')
ASSUMPTIONS = ['line-level landing points in the work thread of the child; the parent-side forwarding thread of the remote kind is paused at a generated line while the child is SIGKILLed',
               'expected sequence E = target applied to the items up to the first poison item']
SHRINK = 'none'
TIME_BUDGET = {'quick': 170, 'thorough': 1700}
REQUIRED = {'quick': {'landed_with_items': 150, 'land:_send_result': 10, 'land:_cleanup': 5, 'pipe:supplied': 100, 'mode:kill': 40, 'land:forwarding_thread': 60, 'unpicklable_partial_result': 40,
                      'forced_terminate_of_stuck_child': 40, 'consumer_blocked_before_death': 100, 'host_vanished': 60, 'second_read_right_after_end': 40},
            'thorough': {'landed_with_items': 600, 'land:_send_result': 40, 'land:_cleanup': 20}}


def examples(tier):
    return 1100 if tier == 'quick' else 8000


def shards(tier):
    return 16


_items = st.lists(st.sampled_from([1, 2, 3, 4, 'POISON', ['T', 5], ['U', 6]]), max_size=5)


def strategy(tier):
    fwd = st.fixed_dictionaries({
        'kind': st.just('p_remote'), 'scenario': st.just('persist'), 'items': st.lists(st.sampled_from([1, 2, 3, 4]), min_size=1, max_size=5),
        'close': st.booleans(), 'pipe': st.sampled_from(['default', 'supplied']), 'inject': st.just({'mode': 'none'}),
        'front': st.fixed_dictionaries({'mode': st.just('pause'), 'n_raw': st.integers(0, 900)})})
    unp = st.fixed_dictionaries({
        'kind': st.just('p_remote'), 'scenario': st.just('persist'),
        'items': st.builds(lambda a, u, b: a + [u] + b, st.lists(st.sampled_from([1, 2]), max_size=2), st.sampled_from(['UNPICKLABLE', 'UNSENDABLE']), st.lists(st.sampled_from([3, 4]), max_size=2)),
        'close': st.booleans(), 'pipe': st.sampled_from(['default', 'supplied']), 'consumer': st.sampled_from(['late', 'early']), 'inject': st.just({'mode': 'unpicklable_partial_result'})})
    unp2 = st.fixed_dictionaries({
        'kind': st.just('p_process'), 'scenario': st.just('persist'),
        'items': st.builds(lambda a, b: a + ['UNSENDABLE'] + b, st.lists(st.sampled_from([1, 2]), max_size=2), st.lists(st.sampled_from([3, 4]), max_size=2)),
        'close': st.booleans(), 'pipe': st.sampled_from(['default', 'supplied']), 'consumer': st.sampled_from(['late', 'early']), 'inject': st.just({'mode': 'unpicklable_partial_result'})})
    # a child that never answers its k-th item and swallows the termination exception: only the forced part of terminate() ends it
    forced = st.fixed_dictionaries({
        'kind': st.sampled_from(['p_process', 'p_remote', 'p_remote']), 'scenario': st.just('persist'),
        'items': st.builds(lambda a, b: a + ['STUCK'] + b, st.lists(st.sampled_from([1, 2, ['T', 5]]), max_size=3), st.lists(st.sampled_from([3, 4]), max_size=1)),
        'close': st.booleans(), 'pipe': st.sampled_from(['default', 'supplied']), 'consumer': st.sampled_from(['late', 'early']),
        'inject': st.just({'mode': 'forced_terminate_of_stuck_child'}), 'term_timeout': st.sampled_from([0, 0.3])})
    # the remote host vanishes (control connection reset / closed, data connection silent for ever) after answering k inputs (engine FAKEHOST)
    vanished = st.fixed_dictionaries({
        'vanished_host': st.just(True), 'kind': st.just('p_remote'), 'answers': st.integers(0, 3), 'more': st.integers(0, 2), 'ctrl': st.sampled_from(['rst', 'fin']),
        'pipe': st.sampled_from(['default', 'supplied']), 'consumer': st.sampled_from(['late', 'early']), 'term_timeout': st.sampled_from([0, 0.3, 1])})
    # SIGKILL from outside while the child is blocked half-way through writing a result far larger than the pipe buffer (nobody is reading
    # yet): the stream must still end as a prefix - the truncated message is not a value and not an error (round-4 seed C06-m8)
    midsend = st.fixed_dictionaries({
        'kind': st.just('p_process'), 'scenario': st.just('persist'),
        'items': st.builds(lambda a, b: a + ['HUGE'] + b, st.lists(st.sampled_from([1, 2, ['T', 5]]), max_size=3), st.lists(st.sampled_from([3]), max_size=1)),
        'close': st.booleans(), 'pipe': st.sampled_from(['default', 'supplied']), 'consumer': st.just('late'),
        'inject': st.just({'mode': 'kill_external', 'sig': 'SIGKILL'}), 'settle': st.sampled_from([0.3, 0.6])})
    return st.one_of(_child_strategy(), _child_strategy(), _child_strategy(), fwd, unp, unp2, forced, vanished, midsend)


def _child_strategy():
    return st.fixed_dictionaries({
        'kind': st.sampled_from(IC.PERSISTENT), 'scenario': st.just('persist'), 'items': _items, 'close': st.booleans(),
        'pipe': st.sampled_from(['default', 'supplied']), 'consumer': st.sampled_from(['late', 'early']), 'read_again': st.booleans(),
        'inject': st.one_of(
            st.fixed_dictionaries({'mode': st.just('terminate'), 'n_raw': st.integers(0, 900)}),
            st.fixed_dictionaries({'mode': st.just('terminate'), 'n_raw': st.integers(0, 900)}),
            st.fixed_dictionaries({'mode': st.just('kill'), 'n_raw': st.integers(0, 900), 'sig': st.sampled_from(['SIGKILL', 'SIGKILL', 'SIGTERM'])}),
            st.just({'mode': 'none'}))})


def exhaustive(tier, shard, nshards):
    if tier != 'thorough':
        return
    idx = 0
    for kind in IC.PERSISTENT:
        for items in ([], [1, 2], [1, 2, 3, 4, 1]):
            for pipe in ('default', 'supplied'):
                for k in range(0, 500):
                    idx += 1
                    if idx % nshards == shard:
                        yield {'kind': kind, 'scenario': 'persist', 'items': items, 'close': True, 'pipe': pipe, 'inject': {'mode': 'terminate', 'n_index': k}}


def _front_census(case, ctx):
    key = ('front', tuple(case['items']), bool(case.get('close')))
    cache = ctx.data.setdefault('census', {})
    if key not in cache:
        # the first serialisation of a class in a process runs one-off analysis code in the forwarding thread: repeat until two censuses agree
        prev = None
        for _ in range(4):
            c = dict(case, inject={'mode': 'none'}, front={'mode': 'census'}, close=True, observe=[])
            obs = IC.execute(c, ctx)
            tr = obs.get('front_trace') or []
            if prev is not None and len(tr) == len(prev):
                break
            prev = tr
        cache[key] = tr
    return cache[key]


def run_vanished(case, ctx):
    import queue
    import threading
    import time
    import multiprocessing.connection as mpc
    import fakehost
    import vtargets
    from core import bounded, Blocked, pid_alive
    from pyworkers.persistent_remote import PersistentRemoteWorker
    from pyworkers.utils import Pipe
    out = Out()
    out.label('kind:p_remote', 'mode:host_vanished', 'pipe:' + case['pipe'])
    if pid_alive(fakehost.FAKE_PID):
        out.excluded = 'the pid reserved for the fake host exists'
        return out
    k = case['answers']
    items = list(range(1, k + case['more'] + 1))
    E = [IC.enc(('r', x)) for x in items[:k]]
    early = case['consumer'] == 'early' and case['pipe'] == 'default'
    site = f'host_vanished:ctrl_{case["ctrl"]}:data_silent' + (':consumer_reading_before_death' if early else '')
    host = fakehost.FakeHost(answers=k, ctrl=case['ctrl'], fn=vtargets.item_or_raise)
    pipe = Pipe() if case['pipe'] == 'supplied' else None
    w = None
    got = {'v': [], 'end': None}
    try:
        try:
            w = bounded(PersistentRemoteWorker, 20, vtargets.item_or_raise, host=host.addr, results_pipe=pipe)
        except BaseException as e:
            out.excluded = 'constructor failed against the fake host: ' + type(e).__name__
            return out
        th = None
        if early:
            out.label('consumer_blocked_before_death')

            def consume():
                try:
                    for v in w.results_iter():
                        got['v'].append(IC.enc(v))
                        if len(got['v']) > 50:
                            break
                    got['end'] = 'stopped'
                except BaseException as e:
                    got['end'] = 'raised:' + type(e).__name__
            th = threading.Thread(target=consume, daemon=True)
            th.start()
        for x in items:
            w.enqueue(x)
        if not host.vanished.wait(15):
            out.excluded = 'fake host did not reach its vanishing point: ' + repr(host.log)
            return out
        time.sleep(0.2)
        out.label('host_vanished')
        out.nontrivial = True
        t0 = time.monotonic()
        try:
            r = bounded(w.terminate, 30, timeout=case['term_timeout'], force=True)
        except Blocked:
            r = 'blocked'
        except BaseException as e:
            r = 'raised:' + type(e).__name__
        el = round(time.monotonic() - t0, 2)
        try:
            dead = bounded(w.is_alive, 10) is False
        except BaseException:
            dead = False
        out.key = dict(case)
        out.obs = {'site': site, 'terminate': repr(r), 'elapsed': el, 'dead': dead, 'items': items, 'answers': k}
        if not dead:
            # C04's business (forced terminate must leave the worker dead); the stream of a live worker is not judged here
            out.label('not_dead')
            return out
        stream, end = None, None
        if pipe is not None:
            raw, ep = [], pipe.parent_end
            t_end = time.monotonic() + 30
            while True:
                left = t_end - time.monotonic()
                if left <= 0 or not mpc.wait([ep], left):
                    end = 'blocked'
                    break
                try:
                    m = ep.recv()
                except (EOFError, OSError):
                    end = 'eof'
                    break
                raw.append(m)
                if isinstance(m, tuple) and len(m) == 4 and m[1] is False:
                    end = 'marker'
                    break
            stream = [IC.enc(m[2]) for m in raw if isinstance(m, tuple) and len(m) == 4 and m[1] is True]
            counters = [m[0] for m in raw if isinstance(m, tuple) and len(m) == 4 and m[1] is True]
            if counters != list(range(1, len(counters) + 1)):
                out.viol('raw_counters_not_consecutive', site, repr(counters))
        elif early:
            th.join(30)
            if th.is_alive():
                end = 'blocked'
            else:
                stream, end = list(got['v']), got['end']
        else:
            def drain():
                return [IC.enc(v) for v in w.results_iter()]
            try:
                stream, end = bounded(drain, 30), 'stopped'
            except Blocked:
                end = 'blocked'
            except BaseException as e:
                end = 'raised:' + type(e).__name__
        if end == 'blocked':
            out.viol('stream_never_ends', site + ':' + case['pipe'], 'the worker is dead (terminate returned, is_alive() False) but reading its results blocks: no end marker, no EOF')
        elif isinstance(end, str) and end.startswith('raised:'):
            out.viol('stream_read_' + end, site, 'results_iter()/next_result() raised instead of ending')
        if stream is not None and stream != E[:len(stream)]:
            out.viol('not_a_prefix', site, f'expected a prefix of {E!r}, got {stream!r}')
        if end == 'stopped' and pipe is None:
            try:
                bounded(w.next_result, 30)
                out.viol('read_after_end_value', site, 'next_result() after the end of the stream returned a value')
            except queue.Empty:
                pass
            except Blocked:
                out.viol('read_after_end_blocked', site, 'next_result() after the end of the stream of a dead worker must raise queue.Empty')
            except BaseException as e:
                out.viol('read_after_end_raised:' + type(e).__name__, site, '')
        out.obs.update({'stream': stream, 'end': end, 'expected': E})
    finally:
        host.close()
        if w is not None:
            try:
                bounded(w.terminate, 10, timeout=0, force=True)
            except BaseException:
                pass
    return out


def run_case(case, ctx):
    if case.get('vanished_host'):
        return run_vanished(case, ctx)
    out = Out()
    inj = dict(case['inject'])
    kind = case['kind']
    mode = inj['mode']
    c = dict(case, observe=['has_error', 'result'])
    if case.get('front'):
        tr = _front_census(case, ctx)
        cand = [e[0] for e in tr if e[2] in ('_fetch_results', 'recv_msg', '_recv_exactly', 'put') or e[1] == 'persistent_remote.py']
        if not cand:
            out.excluded = 'empty census of the forwarding thread'
            return out
        c['front'] = {'mode': 'pause', 'n': cand[case['front']['n_raw'] % len(cand)]}
        mode = 'front_pause'
    elif mode == 'unpicklable_partial_result':
        # a partial result that reaches the parent intact but cannot be rebuilt there: the stream must still end
        c['inject'] = {'mode': 'terminate_now'}
        c['settle'] = 0.4
        out.label('unpicklable_partial_result')
    elif mode == 'forced_terminate_of_stuck_child':
        c['inject'] = {'mode': 'terminate_now'}
        c['settle'] = 0.4
        c['term'] = {'timeout': case.get('term_timeout', 0.3), 'force': True}
        out.label('forced_terminate_of_stuck_child')
    elif mode == 'kill_external':
        out.label('killed_while_blocked_sending_huge_result')
    elif mode == 'none':
        c['close'] = True     # own end: close and wait
    if mode in ('terminate', 'kill'):
        if mode == 'kill' and kind.endswith('thread'):
            out.excluded = 'signals cannot target a thread worker'
            return out
        cen = IC.census(c, ctx)
        span = cen['M'] - cen['s0']
        if span <= 0:
            out.excluded = 'empty census'
            return out
        if 'n_index' in inj:
            if inj['n_index'] >= span:
                out.excluded = 'index beyond the census of this scenario'
                return out
            inj['n'] = cen['s0'] + inj['n_index']
        else:
            inj['n'] = cen['s0'] + inj['n_raw'] % span
        c['inject'] = inj
    obs = IC.execute(c, ctx)
    if obs['ctor'] != 'ok':
        out.excluded = 'constructor did not return a worker: ' + obs['ctor'][:60]
        return out
    reached = obs.get('reached')
    if mode == 'front_pause':
        fr = obs.get('front_reached')
        site = 'child_killed_while_forwarding_thread_paused@' + (f"{fr['file']}:{fr['func']}" if fr else 'not_reached')
        if fr:
            out.label('land:forwarding_thread')
    else:
        site = (mode + '@' + IC.region_of(reached)) if mode != 'none' else 'own_end:' + kind
    out.label('kind:' + kind, 'mode:' + mode, 'pipe:' + case['pipe'])
    early = case.get('consumer') == 'early' and case['pipe'] == 'default'
    if early:
        out.label('consumer_blocked_before_death')
        site += ':consumer_reading_before_death'
    items = case['items']
    if reached and items:
        out.label('landed_with_items')
        for fn in ('_send_result', '_cleanup', 'do_work'):
            if IC.stack_has(reached, fn):
                out.label('land:' + fn)
        if 'handler' in IC.region_of(reached):
            out.label('land:handler')
    out.nontrivial = mode in ('unpicklable_partial_result', 'forced_terminate_of_stuck_child') or bool(reached and items) or (mode == 'none' and bool(items)) or (mode == 'front_pause' and bool(obs.get('front_reached')))
    out.key = {'kind': kind, 'items': items, 'close': c.get('close'), 'pipe': case['pipe'], 'mode': mode, 'n': inj.get('n'), 'sig': inj.get('sig'), 'consumer': 'early' if early else 'late'}
    if not obs['dead']:
        out.label('not_dead')
        out.obs = {'site': site, 'dead': False}
        return out
    E = [IC.enc(v) for v in IC.expected_items(items)]
    stream = obs.get('stream')
    end = obs.get('stream_end')
    if end == 'blocked':
        out.viol('stream_never_ends', site + ':' + case['pipe'], 'reading the results after death blocked (no end marker, no EOF, results_iter did not stop)')
    elif isinstance(end, str) and end.startswith('raised:'):
        out.viol('stream_read_' + end, site, 'results_iter()/next_result() raised instead of ending')
    if stream is not None:
        k = len(stream)
        if stream != E[:k]:
            out.viol('not_a_prefix', site, f'expected a prefix of {E!r}, got {stream!r}')
        if mode == 'none' and obs.get('accepted') == len(items) and k != len(E):
            out.viol('own_end_incomplete', site, f'worker ended by its own choice but delivered {k} of {len(E)} results')
    if case['pipe'] == 'supplied' and obs.get('raw') is not None:
        counters = [r[0] for r in obs['raw'] if isinstance(r, list) and r[1] is True]
        if counters != list(range(1, len(counters) + 1)):
            out.viol('raw_counters_not_consecutive', site, repr(counters))
        if any(isinstance(r, dict) and 'odd' in r for r in obs['raw']):
            out.viol('malformed_raw_message', site, repr(obs['raw'])[:200])
    if early and case.get('read_again') and end == 'stopped':
        out.label('second_read_right_after_end')
        ra = obs.get('read_again')
        if ra != 'empty':
            out.viol('second_read_after_end_' + str(ra), site, 'the consumer saw the end of the stream and called next_result() once more at once (the worker may still have been '
                     'winding down): ' + ('the call is still blocked although the worker is dead' if ra == 'blocked' else 'it did not raise queue.Empty'))
    if case['pipe'] == 'default' and end == 'stopped':
        ae = obs.get('after_end')
        if ae != 'empty':
            out.viol('read_after_end_' + str(ae), site, 'next_result() after the end of the stream of a dead worker must raise queue.Empty')
    out.obs = {'site': site, 'line': IC.site_of(reached), 'stream': stream, 'end': end, 'after_end': obs.get('after_end'), 'expected': E}
    return out


def teardown_shard(ctx):
    IC.stop_server(ctx)


TRIGGERS = {}
