"""C14 - every opt-in object, wherever it sits, is serialised remotely exactly once (engine GRAPH)."""
import pickle

from hypothesis import strategies as st

from core import Out
import graphs as G
from pyworkers import remote_pickle as rp

ID = 'C14'
LEVEL = 'exploration'
RULE = ('case = generated object graph mixing opt-in classes (dict / non-dict / None / falsy remote state, with and without __setstate__, marker base or '
        'duck-typed, inherited, **kwargs pass-through, __getnewargs__) with plain classes, containers, shared references and cycles; plus an enumerated '
        'shape grammar (top-level, 1-3 direct opt-in attributes, inside list/tuple/dict, chains of depth <=3, shared, self/parent cycles). '
        'Oracle: dump log has exactly one __getstate__(remote=True) per reachable opt-in instance; load succeeds; canonical shape of the result equals the '
        'standard-pickle round trip of a twin graph whose plain classes return the remote state (so "restored the way standard unpickling would"); '
        'no instance keeps a stray __setstate__. Non-trivial = >=2 opt-in instances, or one inside a container, or a cycle; distinct = distinct case.')
ASSUMPTIONS = ['twin classes: same state function with remote=True hard-wired, same __setstate__; expected shape computed by the standard pickle module',
               'canonical form as in C13']
SHRINK = 'greedy'
SHRINK_RUNS = 300
TIME_BUDGET = {'quick': 150, 'thorough': 1500}
FUZZ = {'quick': (2, 4000), 'thorough': (4, 200000)}     # coverage-guided shards: (processes, libFuzzer runs each)
REQUIRED = {'quick': {'optin>=2': 300, 'cycle': 50, 'shape:siblings2': 2, 'shape:siblings3': 2, 'shape:shared': 2, 'shape:selfcycle': 2, 'no_setstate_class': 200,
                      'nondict_state': 200},
            'thorough': {'optin>=2': 10000, 'cycle': 500, 'no_setstate_class': 2000, 'nondict_state': 2000}}


def examples(tier):
    return 12000 if tier == 'quick' else 600000


def shards(tier):
    return 8 if tier == 'quick' else 16


def strategy(tier):
    mixed = G.graph_strategy(G.OPTIN_NAMES * 2 + ['P0', 'P1', 'P3', 'PM0', 'PM1'], std=False, max_nodes=10)
    return st.builds(lambda g, p: dict(g, protocol=p), mixed, st.sampled_from([0, 1, 2, 3, 4, 4, 5]))


# ---- enumerated shape grammar -------------------------------------------------------------------

def _inst(cls, **attrs):
    return {'t': 'inst', 'cls': cls, 'attrs': attrs}


def shapes():
    out = []
    for cls in G.OPTIN_NAMES:
        for par in ('R0', 'R1', 'R7', 'R4'):
            S = lambda k: {'t': 'scalar', 'v': k}
            out.append(('top', [S(1), _inst(cls, a=0)]))
            out.append(('siblings1', [S(1), _inst(cls, a=0), _inst(par, x=1, n=0)]))
            out.append(('siblings2', [S(1), _inst(cls, a=0), _inst(cls, a=0), _inst(par, x=1, y=2)]))
            out.append(('siblings3', [S(1), _inst(cls, a=0), _inst(cls, a=0), _inst(cls, a=0), _inst(par, x=1, y=2, z=3)]))
            out.append(('in_list', [S(1), _inst(cls, a=0), {'t': 'list', 'items': [1, 0]}, _inst(par, l=2)]))
            out.append(('in_tuple', [S(1), _inst(cls, a=0), {'t': 'tuple', 'items': [1, 0]}, _inst(par, l=2)]))
            out.append(('in_dict', [S(1), _inst(cls, a=0), {'t': 'dict', 'items': [['k', 1]]}, _inst(par, l=2)]))
            out.append(('plain_holder', [S(1), _inst(cls, a=0), _inst('P0', h=1)]))
            out.append(('list_root', [S(1), _inst(cls, a=0), _inst(cls, a=0), {'t': 'list', 'items': [1, 2]}]))
            out.append(('chain3', [S(1), _inst(cls, a=0), _inst(par, c=1), _inst(par, c=2)]))
            out.append(('shared', [S(1), _inst(cls, a=0), _inst(par, x=1), _inst(par, y=1), {'t': 'list', 'items': [2, 3]}]))
            out.append(('shared_siblings', [S(1), _inst(cls, a=0), _inst(par, x=1, y=1)]))
            # next to its one opt-in child the parent holds an instance of a class that merely derives from the marker base (not opt-in)
            out.append(('optin_child_and_marker_derived_plain', [S(1), _inst(cls, a=0), _inst('PM0', a=0), _inst(par, x=1, m=2)]))
            out.append(('optin_child_and_marker_derived_plain1', [S(1), _inst(cls, a=0), _inst('PM1', a=0), _inst(par, m=2, x=1)]))
    cases = []
    for name, nodes in out:
        cases.append({'nodes': nodes, 'links': [], 'root': -1, 'protocol': 4, 'shape': name})
    for cls in G.OPTIN_NAMES:
        cases.append({'nodes': [_inst(cls, a=0)], 'links': [[0, 'k', 0]], 'root': -1, 'protocol': 4, 'shape': 'selfcycle'})
        cases.append({'nodes': [_inst(cls), _inst('R0', c=0)], 'links': [[0, 'k', 1]], 'root': -1, 'protocol': 4, 'shape': 'parentcycle'})
        cases.append({'nodes': [_inst(cls), {'t': 'list', 'items': [0]}], 'links': [[0, 'k', 1]], 'root': -1, 'protocol': 4, 'shape': 'listcycle'})
    return cases


def fresh_programs():
    """class-definition programs executed with brand-new classes (the class analysis cache is process-global, so order-of-first-use effects
    can only be seen on classes that have never been pickled before)"""
    progs = []
    for helper_marker in (False, True):
        for optin_marker in (False, True):
            for helper_first_in_bases in (True, False):
                for warm in ('none', 'helper', 'optin_base', 'both'):
                    for container in ('list_helper_first', 'list_derived_first', 'alone'):
                        progs.append({'fresh': True, 'helper_marker': helper_marker, 'optin_marker': optin_marker, 'helper_first_in_bases': helper_first_in_bases,
                                      'warm': warm, 'container': container})
    return progs


_fresh_n = [0]


def run_fresh(case, out):
    _fresh_n[0] += 1
    n = _fresh_n[0]
    calls = []
    hb = (rp.SupportRemoteGetState,) if case['helper_marker'] else (object,)
    ob = (rp.SupportRemoteGetState,) if case['optin_marker'] else (object,)
    H = type(hb[0])(f'FH{n}', hb, {'__module__': __name__, '__qualname__': f'FH{n}'})

    def gs(self, remote=False):
        calls.append(bool(remote))
        d = dict(self.__dict__)
        d['_via'] = 'remote' if remote else 'local'
        return d

    def ss(self, state):
        self.__dict__.update(state)
    O = type(ob[0])(f'FO{n}', ob, {'__module__': __name__, '__qualname__': f'FO{n}', '__getstate__': gs, '__setstate__': ss})
    bases = (H, O) if case['helper_first_in_bases'] else (O, H)
    D = type(O)(f'FD{n}', bases, {'__module__': __name__, '__qualname__': f'FD{n}'})
    for c in (H, O, D):
        globals()[c.__name__] = c
    site = 'fresh_mi:' + ('helper_first' if case['helper_first_in_bases'] else 'optin_first') + ':warm_' + case['warm']
    out.label('fresh_class_program')
    out.nontrivial = True
    try:
        if case['warm'] in ('helper', 'both'):
            rp.loads(rp.dumps(H()))
        if case['warm'] in ('optin_base', 'both'):
            rp.loads(rp.dumps(O()))
        del calls[:]
        d = D()
        d.x = 1
        g = {'list_helper_first': [H(), d], 'list_derived_first': [d, H()], 'alone': d}[case['container']]
        data = rp.dumps(g)
        if calls != [True]:
            out.viol('getstate_without_remote_flag' if calls else 'getstate_count', site, f'derived instance of a fresh class: __getstate__ flags during dump: {calls}')
        back = rp.loads(data)
        b = back if case['container'] == 'alone' else [x for x in back if type(x) is D][0]
        if vars(b) != {'x': 1, '_via': 'remote'}:
            out.viol('different_graph', site, f'restored state {vars(b)!r}')
    except Exception as e:
        out.viol('dumps_or_loads_raised:' + type(e).__name__, site, repr(e)[:200])
    out.obs = {'program': case, 'flags': calls}
    return out


def exhaustive(tier, shard, nshards):
    for i, c in enumerate(shapes()):
        if i % nshards == shard:
            yield c
    for i, c in enumerate(fresh_programs()):
        if i % nshards == shard:
            yield c


# ---- shape features used by known-finding triggers ---------------------------------------------

def features(root, remote=True):
    """Structural risk features of a live graph (computed from the objects, independent of remote_pickle)."""
    feats = set()
    objs = G.walk(root)
    refcount = {}
    for o in objs:
        kids = []
        if isinstance(o, (list, tuple, set, frozenset)):
            kids = list(o)
        elif isinstance(o, dict):
            kids = list(o.values())
        elif hasattr(o, '__dict__') and not isinstance(o, type) and not callable(o):
            kids = list(vars(o).values())
        for k in kids:
            refcount[id(k)] = refcount.get(id(k), 0) + 1
    for o in objs:
        if not G.is_optin_obj(o):
            continue
        name = type(o).__name__
        f = G.FEATURES[name]
        if f['kind'] == 'none':
            feats.add('none_state')
        if f['kind'] == 'nondict':
            feats.add('nondict_state')
        if f['kind'] == 'falsy':
            feats.add('falsy_state')
        dictlike = f['kind'] == 'dict' if remote else f['kind'] != 'nondict'
        direct = [v for v in vars(o).values() if G.is_optin_obj(v)] if dictlike else []
        if len(direct) >= 2:
            feats.add('optin_parent_with>=2_optin_direct_children')
        if len(direct) >= 1:
            feats.add('optin_parent_with_optin_direct_child')
        for v in direct:
            if v is o:
                feats.add('optin_direct_child_is_self')
            if refcount.get(id(v), 0) > 1:
                feats.add('optin_direct_child_shared')
            if any(x is o for x in G.walk_children_deep(v)):
                feats.add('optin_direct_child_in_cycle')
            if G.FEATURES[type(v).__name__]['kind'] == 'none':
                feats.add('optin_direct_child_none_state')
        # opt-in objects reachable from o's state through containers / plain objects (not direct)
        if f['kind'] in ('dict', 'nondict', 'falsy'):
            for v in vars(o).values():
                if not G.is_optin_obj(v) and any(G.is_optin_obj(x) for x in [v] + list(G.walk_children_deep(v)) if x is not o):
                    feats.add('optin_nested_in_container_of_optin')
    if not G.is_optin_obj(root) and any(G.is_optin_obj(o) for o in objs):
        feats.add('optin_below_plain_root')
    return feats


def run_case(case, ctx):
    out = Out()
    if case.get('fresh'):
        return run_fresh(case, out)
    G.log_reset()
    root, nodes = G.build(case)
    troot, tnodes = G.build(case, twin=True)
    labels, n_opt = G.shape_labels(case, root)
    out.label(*labels)
    if case.get('shape'):
        out.label('shape:' + case['shape'])
    feats = features(root)
    out.label(*('feat:' + f for f in feats))
    objs = G.walk(root)
    optin_ids = {id(o): type(o).__name__ for o in objs if G.is_optin_obj(o)}
    for n in optin_ids.values():
        if G.FEATURES[n]['setstate'] == 'none':
            out.label('no_setstate_class')
        if G.FEATURES[n]['kind'] == 'nondict':
            out.label('nondict_state')
    in_container = 'feat:optin_nested_in_container_of_optin' in out.labels or 'feat:optin_below_plain_root' in out.labels
    out.nontrivial = n_opt >= 2 or (n_opt >= 1 and (in_container or 'cycle' in labels))
    p = case.get('protocol', 4)
    # expected: the standard module on the twin graph
    try:
        G.log_reset()
        expected = G.canon(pickle.loads(pickle.dumps(troot, protocol=p)), twin_names=True)
        # which opt-in instances does the serialised graph actually contain? those whose twin was asked for its state by the standard pickler
        tcalls = {}
        for e in G.LOG:
            if e[0] == 'tgetstate':
                tcalls[e[1]] = tcalls.get(e[1], 0) + 1
        want = {id(nodes[i]): tcalls.get(id(tnodes[i]), 0) for i in range(len(nodes)) if G.is_optin_obj(nodes[i])}
    except RecursionError:
        out.excluded = 'twin graph not picklable by the standard module (recursion)'
        return out
    except Exception as e:
        out.excluded = f'twin graph not picklable by the standard module ({type(e).__name__})'
        return out
    site = _site(feats, case)
    G.log_reset()
    try:
        data = rp.dumps(root, protocol=p)
    except Exception as e:
        out.viol('dumps_raised:' + type(e).__name__, site, repr(e))
        return out
    gs = [e for e in G.LOG if e[0] == 'getstate' and e[1] in optin_ids]
    per = {}
    for e in gs:
        per.setdefault(e[1], []).append(e[3])
    for oid, name in optin_ids.items():
        flags = per.get(oid, [])
        if len(flags) != want.get(oid, 0):
            out.viol('getstate_count', site, f'{name} instance: __getstate__ called {len(flags)} times during one dump ({flags})')
        elif flags and flags[0] is not True:
            out.viol('getstate_without_remote_flag', site, f'{name} instance serialised with remote={flags[0]}')
    G.log_reset()
    try:
        loaded = rp.loads(data)
    except Exception as e:
        out.viol('loads_raised:' + type(e).__name__, site, repr(e)[:300])
        out.obs = {'optin': n_opt, 'features': sorted(feats), 'loads': type(e).__name__}
        return out
    got = G.canon(loaded)
    if got != expected:
        out.viol('different_graph', site, _diff(expected, got))
    lobjs = G.walk(loaded)
    stray = sorted(set(type(o).__name__ for o in lobjs if hasattr(o, '__dict__') and '__setstate__' in vars(o)))
    if stray:
        out.viol('stray_setstate_attribute', site, f'instances of {stray} keep a bound __setstate__ in their __dict__ after loads')
    ss = {}
    for e in G.LOG:
        if e[0] == 'setstate':
            ss[e[1]] = ss.get(e[1], 0) + 1
    for o in lobjs:
        if G.is_optin_obj(o) and ss.get(id(o), 0) > 1:
            out.viol('setstate_called_twice', site, f'{type(o).__name__}.__setstate__ called {ss[id(o)]} times')
    out.obs = {'optin': n_opt, 'features': sorted(feats), 'loads': 'ok', 'equal': got == expected}
    return out


def _site(feats, case):
    order = ['optin_direct_child_is_self', 'optin_direct_child_in_cycle', 'optin_direct_child_shared', 'optin_parent_with>=2_optin_direct_children',
             'optin_direct_child_none_state', 'optin_nested_in_container_of_optin', 'none_state', 'optin_below_plain_root',
             'optin_parent_with_optin_direct_child', 'nondict_state', 'falsy_state']
    hit = [f for f in order if f in feats]
    return '+'.join(hit[:3]) if hit else 'simple'


def _diff(a, b):
    for i, (x, y) in enumerate(zip(a, b)):
        if x != y:
            return f'node {i}: expected {x!r:.220} got {y!r:.220}'
    return f'lengths {len(a)} vs {len(b)}'


def simplify(case):
    if case.get('fresh'):
        return
    n = case['nodes']
    for i in range(len(n) - 1, -1, -1):
        if len(n) > 1:
            c = dict(case); c['nodes'] = n[:i] + n[i + 1:]
            yield c
    if case.get('links'):
        for i in range(len(case['links'])):
            c = dict(case); c['links'] = case['links'][:i] + case['links'][i + 1:]
            yield c
    for i, nd in enumerate(n):
        if nd['t'] != 'scalar':
            c = dict(case); c['nodes'] = list(n); c['nodes'][i] = {'t': 'scalar', 'v': 0}
            yield c
        if nd['t'] == 'inst' and nd.get('attrs'):
            for k in nd['attrs']:
                c = dict(case); c['nodes'] = list(n); c['nodes'][i] = dict(nd, attrs={a: b for a, b in nd['attrs'].items() if a != k})
                yield c


_SIB = {'feat:optin_parent_with>=2_optin_direct_children', 'feat:optin_direct_child_shared', 'feat:optin_direct_child_in_cycle',
        'feat:optin_direct_child_is_self'}
TRIGGERS = {
    'sibling_shared_or_cyclic_optin_direct_children': lambda case, outd, v: bool(_SIB & set(outd['labels'])),
    'optin_with_none_remote_state': lambda case, outd, v: 'feat:none_state' in outd['labels'],
    'protocol_0_or_1_and_falsy_state': lambda case, outd, v: case.get('protocol', 4) < 2 and 'feat:falsy_state' in outd['labels'],
    # with remote=False the menu classes of kind 'none' and 'falsy' return their plain __dict__, which is false when the instance has no attributes
    'protocol_0_or_1_and_false_local_state': lambda case, outd, v: case.get('protocol', 4) < 2 and bool({'feat:falsy_state', 'feat:none_state'} & set(outd['labels'])),
}
