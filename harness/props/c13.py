"""C13 - remote_pickle is invisible to code that does not opt in (engine GRAPH, in-process)."""
import copy
import pickle
import multiprocessing.reduction as mpr

from hypothesis import strategies as st

from core import Out
import graphs as G
from pyworkers import remote_pickle as rp

ID = 'C13'
LEVEL = 'exploration'
RULE = ('case kinds: (plain) generated object graph over plain classes + stdlib menu x protocol 2-5 x remote flag, oracle: canonical shape of the '
        'remote_pickle round trip == canonical shape of the standard pickle round trip (or both raise the same exception type); (optin_false) graphs with '
        'opt-in instances dumped with remote=False must equal the standard round trip and log only flag-less __getstate__ calls; (stdlib_after) standard '
        'pickle / copy / deepcopy / ForkingPickler of opt-in instances after remote pickling never see the flag and objects loaded by remote_pickle re-pickle '
        'normally; (chain) enumerated class-definition programs: inconsistent opt-in chains raise Warning, consistent ones do not. '
        'Non-trivial = graph has a class instance, a copyreg-reduced value or a shared reference/cycle; distinct = distinct case.')
ASSUMPTIONS = ['canonical form compares type names, attribute dicts, container contents, sharing and cycles; it does not call user __eq__',
               'the reference rule for (in)consistent chains is written from the module docstring and pickle precedence (DESIGN.md 3.4)']
SHRINK = 'hypothesis'
SHRINK_EXAMPLES = 300
TIME_BUDGET = {'quick': 150, 'thorough': 1500}
FUZZ = {'quick': (2, 4000), 'thorough': (4, 200000)}     # coverage-guided shards: (processes, libFuzzer runs each)
REQUIRED = {'quick': {'cycle': 20, 'shared_or_cycle': 100, 'slots': 50, 'reduce': 50, 'kwargs_passthrough': 50, 'copyreg_type': 50,
                      'kind:optin_false': 200, 'kind:stdlib_after': 200, 'kind:chain': 50},
            'thorough': {'cycle': 200, 'shared_or_cycle': 1000, 'slots': 500, 'reduce': 500, 'kwargs_passthrough': 500, 'copyreg_type': 500,
                         'kind:optin_false': 2000, 'kind:stdlib_after': 2000, 'kind:chain': 50}}


def examples(tier):
    return 12000 if tier == 'quick' else 600000


def shards(tier):
    return 8 if tier == 'quick' else 16


def strategy(tier):
    plain = G.graph_strategy(list(G.PLAIN), std=True)
    mixed = G.graph_strategy(list(G.PLAIN) + G.OPTIN_NAMES, std=True)
    a = st.builds(lambda g, p, r: dict(g, kind='plain', protocol=p, remote=r), plain, st.integers(0, 5), st.booleans())
    b = st.builds(lambda g, p: dict(g, kind='optin_false', protocol=p), mixed, st.integers(0, 5))
    c = st.builds(lambda g, ops: dict(g, kind='stdlib_after', ops=ops), mixed,
                  st.lists(st.sampled_from(['pickle', 'copy', 'deepcopy', 'forking', 'repickle_loaded']), min_size=1, max_size=4))
    return st.one_of(a, a, b, c)


# ---- chain programs (enumerated) --------------------------------------------------------------

_GS = ['none', 'plain', 'remote', 'kwargs']
_EXTRA = ['-', 'reduce']


def chain_programs():
    """Inheritance chains of depth 1-3 (most derived last); each level picks a __getstate__ flavour and optionally __reduce__."""
    progs = []
    for depth in (1, 2, 3):
        import itertools
        for levels in itertools.product(_GS, repeat=depth):
            for red_at in [None] + list(range(depth)):
                for marker in (False, True):
                    progs.append({'levels': list(levels), 'reduce_at': red_at, 'marker': marker})
    return progs


def reference_verdict(prog):
    """Walk from the most derived class: __reduce__ ends the walk; 'remote' opts in; 'kwargs' is transparent; a plain __getstate__ in a class
    that is MORE derived than a remote-aware one hides the flag -> inconsistent."""
    levels = prog['levels']
    seen_plain = False
    optin = False
    inconsistent = False
    for i in range(len(levels) - 1, -1, -1):      # most derived first
        if prog['reduce_at'] == i:
            optin = False
            break
        g = levels[i]
        if g == 'remote':
            if seen_plain:
                inconsistent = True
                break
            optin = True
        elif g == 'plain':
            seen_plain = True
    return 'inconsistent' if inconsistent else ('optin' if optin else 'plain')


_chain_counter = [0]


def run_chain(prog, out):
    _chain_counter[0] += 1
    # classes are created level by level, so every prefix of the chain is a class of its own and must be consistent too
    verdict = 'plain'
    # (duck-typed chains are only inspected when an instance is dumped, so only the complete chain counts for them)
    for k in range(1 if prog['marker'] else len(prog['levels']), len(prog['levels']) + 1):
        sub = {'levels': prog['levels'][:k], 'reduce_at': prog['reduce_at'] if prog['reduce_at'] is not None and prog['reduce_at'] < k else None}
        verdict = reference_verdict(sub)
        if verdict == 'inconsistent':
            break
    out.label('chain:' + verdict)
    raised_at = None
    cls = rp.SupportRemoteGetState if prog['marker'] else object
    calls = []
    try:
        for i, g in enumerate(prog['levels']):
            ns = {}
            if g == 'plain':
                def gs(self):
                    calls.append(None)
                    return dict(self.__dict__)
                ns['__getstate__'] = gs
            elif g == 'remote':
                def gs(self, remote=False):
                    calls.append(bool(remote))
                    return dict(self.__dict__)
                ns['__getstate__'] = gs
            elif g == 'kwargs':
                def gs(self, _base=cls, **kwargs):
                    sup = super(type(self), self) if False else None
                    f = getattr(_base, '__getstate__', None)
                    try:
                        return f(self, **kwargs) if kwargs else f(self)
                    except TypeError:
                        return f(self)
                ns['__getstate__'] = gs
            if prog['reduce_at'] == i:
                def red(self):
                    return (object.__new__, (type(self),), dict(self.__dict__))
                ns['__reduce__'] = red
            ns['__setstate__'] = lambda self, st_: self.__dict__.update(st_)
            name = f'Chain{_chain_counter[0]}_{i}'
            ns['__module__'] = __name__
            ns['__qualname__'] = name
            cls = type(cls)(name, (cls,), ns)
            globals()[name] = cls
    except Warning as w:
        raised_at = 'class_creation'
    if raised_at is None:
        obj = cls.__new__(cls)
        obj.__dict__['v'] = 1
        try:
            rp.dumps(obj)
        except Warning:
            raised_at = 'dumps'
            # the verdict on a class must not depend on how often it has been asked for: a second and third attempt (a retry, another
            # protocol, the class nested in a container) have to be rejected just the same
            for attempt, thing in enumerate((obj, [obj], {'k': obj})):
                try:
                    rp.dumps(thing, protocol=(2 + attempt) if attempt else None)
                    out.viol('inconsistent_chain_accepted_on_retry', 'chain', f'{prog}: the first dumps raised Warning, attempt {attempt + 2} was accepted (flags seen: {calls[-3:]})')
                    break
                except Warning:
                    pass
                except Exception as e:
                    out.viol('chain_dumps_raised:' + type(e).__name__, 'chain:' + verdict + ':retry', f'{prog}: {e!r}')
                    break
        except Exception as e:
            out.viol('chain_dumps_raised:' + type(e).__name__, 'chain:' + verdict, f'{prog}: {e!r}')
            return
    out.obs = {'prog': prog, 'reference': verdict, 'warning_at': raised_at, 'getstate_flags': calls[:4]}
    if verdict == 'inconsistent' and raised_at is None:
        out.viol('inconsistent_chain_accepted', 'chain', f'{prog}: reference rule says inconsistent but neither class creation nor dumps raised Warning')
    if verdict != 'inconsistent' and raised_at is not None:
        out.viol('consistent_chain_rejected', 'chain', f'{prog}: reference rule says {verdict} but Warning raised at {raised_at}')
    if verdict == 'optin' and raised_at is None and True not in calls:
        out.viol('optin_not_honoured', 'chain', f'{prog}: opt-in chain was dumped without remote=True ({calls})')
    if verdict == 'plain' and True in calls:
        out.viol('flag_passed_to_non_optin', 'chain', f'{prog}: chain is not opt-in but __getstate__ got remote=True')


def exhaustive(tier, shard, nshards):
    for i, prog in enumerate(chain_programs()):
        if i % nshards == shard:
            yield {'kind': 'chain', 'prog': prog}


def _roundtrip(fn):
    try:
        return ('ok', fn())
    except RecursionError:
        return ('exc', 'RecursionError')
    except Exception as e:
        return ('exc', type(e).__name__, str(e)[:150])


def run_case(case, ctx):
    out = Out()
    kind = case['kind']
    out.label('kind:' + kind)
    if kind == 'chain':
        run_chain(case['prog'], out)
        out.nontrivial = True
        return out
    G.log_reset()
    root, nodes = G.build(case)
    labels, n_opt = G.shape_labels(case, root)
    out.label(*labels)
    if n_opt:
        from props import c14
        out.label(*('feat:' + f for f in c14.features(root, remote=(kind != 'optin_false'))))
    out.nontrivial = bool(labels & {'has_instance', 'copyreg_type', 'shared_or_cycle'})
    if kind == 'plain':
        p = case['protocol']
        std = _roundtrip(lambda: G.canon(pickle.loads(pickle.dumps(root, protocol=p))))
        G.log_reset()
        rem = _roundtrip(lambda: G.canon(rp.loads(rp.dumps(root, protocol=p, remote=case['remote']))))
        out.obs = {'std': std[0], 'rp': rem[0], 'nodes': len(nodes)}
        if std[0] == 'ok' and rem[0] == 'exc':
            out.viol('rp_raised:' + rem[1], _site(labels), f'standard pickle round trip works, remote_pickle raised {rem[1:]}')
        elif std[0] == 'exc' and rem[0] == 'ok':
            out.viol('rp_accepted_what_pickle_rejects', _site(labels), f'pickle raised {std[1:]}')
        elif std[0] == 'exc' and std[1] != rem[1]:
            out.viol('different_exception', _site(labels), f'pickle {std[1:]} vs remote_pickle {rem[1:]}')
        elif std[0] == 'ok' and std[1] != rem[1]:
            out.viol('different_graph', _site(labels), _diff(std[1], rem[1]))
    elif kind == 'optin_false':
        p = case['protocol']
        std = _roundtrip(lambda: G.canon(pickle.loads(pickle.dumps(root, protocol=p))))
        G.log_reset()
        rem = _roundtrip(lambda: G.canon(rp.loads(rp.dumps(root, protocol=p, remote=False))))
        flags = [e[3] for e in G.LOG if e[0] == 'getstate' and e[3] is not None]
        out.obs = {'std': std[0], 'rp': rem[0], 'optin': n_opt, 'flags': flags[:6]}
        if any(flags):
            out.viol('remote_flag_with_remote_false', _site(labels), f'__getstate__ received remote=True although dumps(remote=False): {flags}')
        if std[0] == 'ok' and rem[0] == 'exc':
            out.viol('rp_raised:' + rem[1], 'remote_false:' + _optin_site(root), f'standard round trip works, remote_pickle(remote=False) raised {rem[1:]}')
        elif std[0] == 'ok' and std[1] != rem[1]:
            out.viol('different_graph', 'remote_false:' + _optin_site(root), _diff(std[1], rem[1]))
        elif std[0] == 'exc' and rem[0] == 'ok':
            out.viol('rp_accepted_what_pickle_rejects', 'remote_false', f'pickle raised {std[1:]}')
    elif kind == 'stdlib_after':
        # some remote pickling first (whatever it does), then the standard machinery must be untouched
        pre = _roundtrip(lambda: rp.loads(rp.dumps(root)))
        base = _roundtrip(lambda: G.canon(pickle.loads(pickle.dumps(root))))
        for op in case['ops']:
            G.log_reset()
            if op == 'pickle':
                r = _roundtrip(lambda: G.canon(pickle.loads(pickle.dumps(root))))
            elif op == 'copy':
                r = _roundtrip(lambda: G.canon(copy.copy(root)))
                r = ('ok', None) if r[0] == 'ok' else r
            elif op == 'deepcopy':
                r = _roundtrip(lambda: G.canon(copy.deepcopy(root)))
                r = ('ok', None) if r[0] == 'ok' else r
            elif op == 'forking':
                r = _roundtrip(lambda: G.canon(pickle.loads(bytes(mpr.ForkingPickler.dumps(root)))))
            else:  # repickle what remote_pickle loaded
                if pre[0] != 'ok':
                    continue
                loaded = pre[1]
                r = _roundtrip(lambda: pickle.loads(pickle.dumps(loaded)))
                stray = [type(o).__name__ for o in G.walk(loaded) if hasattr(o, '__dict__') and '__setstate__' in vars(o)]
                if stray:
                    out.viol('stray_setstate_attribute', 'loaded:' + ','.join(sorted(set(stray))), 'instance loaded by remote_pickle keeps a bound __setstate__ in its __dict__')
                if r[0] == 'exc' and base[0] == 'ok':
                    out.viol('loaded_object_not_picklable:' + r[1], 'repickle', str(r[1:]))
                r = ('ok', None)
            flags = [e[3] for e in G.LOG if e[0] == 'getstate' and e[3] is not None]
            if any(flags):
                out.viol('remote_flag_seen_by_' + op, _site(labels), f'{op} called __getstate__ with remote=True')
            if base[0] == 'ok' and r[0] == 'exc':
                out.viol(op + '_raised:' + r[1], _site(labels), str(r[1:]))
            if op in ('pickle', 'forking') and base[0] == 'ok' and r[0] == 'ok' and r[1] != base[1]:
                out.viol('different_graph', op, _diff(base[1], r[1]))
        out.obs = {'pre': pre[0], 'base': base[0], 'ops': case['ops'], 'optin': n_opt}
    return out


def _site(labels):
    for l in ('copyreg_type', 'cycle', 'slots', 'reduce', 'getnewargs', 'kwargs_passthrough', 'std_value', 'has_instance'):
        if l in labels:
            return l
    return 'plain_containers'


def _optin_site(root):
    names = sorted(set(type(o).__name__ for o in G.walk(root) if type(o).__name__ in G.OPTIN))
    return ','.join(names)


def _diff(a, b):
    for i, (x, y) in enumerate(zip(a, b)):
        if x != y:
            return f'node {i}: {x!r:.200} != {y!r:.200}'
    return f'lengths {len(a)} vs {len(b)}'


def simplify(case):
    if case.get('kind') == 'chain':
        return
    n = case['nodes']
    for i in range(len(n) - 1, -1, -1):
        if len(n) > 1:
            c = dict(case); c['nodes'] = n[:i] + n[i + 1:]
            yield c
    if case.get('links'):
        c = dict(case); c['links'] = []
        yield c
    for i, nd in enumerate(n):
        if nd['t'] != 'scalar':
            c = dict(case); c['nodes'] = list(n); c['nodes'][i] = {'t': 'scalar', 'v': 0}
            yield c
    if case.get('ops') and len(case['ops']) > 1:
        for i in range(len(case['ops'])):
            c = dict(case); c['ops'] = case['ops'][:i] + case['ops'][i + 1:]
            yield c


from props import c14 as _c14
TRIGGERS = _c14.TRIGGERS
