"""C01 - a dead worker always has one definite, consistent and stable outcome (engine INJECT)."""
from hypothesis import strategies as st

from core import Out
import injcases as IC
import vtargets

ID = 'C01'
LEVEL = 'fault_enumeration'
INJECT = True
RULE = ('case = (worker class of the six, scenario {returning, raising, loop with finally, persistent with 0-3 items incl. a poison item, BaseException, '
        'untransferable exception, 0.3-4 MB result}, ending {own end, graceful terminate() landing at the n-th traced line of the child run loop, SIGKILL/SIGTERM '
        'raised by the child itself at the n-th line, external SIGKILL while blocked sending a big result}, observation script of 4-8 reads of '
        'is_alive/has_error/result/error/wait(0)/terminate(0) in generated order). n ranges over the census of the scenario (every line event of '
        'pyworkers code in the work thread from construction-complete to exit); quick enumerates every n for thread and process one-shot workers with the '
        'returning and the raising target. Non-trivial = the landing was confirmed by the injector (or the external kill hit a live child); '
        'distinct = distinct (kind, scenario, ending, landing index).')
ASSUMPTIONS = ['an exception raised from the line tracer at line L is equivalent to an asynchronous exception / signal delivered just before L executes',
               'landing points inside stdlib frames called from pyworkers are represented by the calling pyworkers line',
               'for BaseException endings of process/remote kinds both the exception and None are accepted as error']
SHRINK = 'none'
TIME_BUDGET = {'quick': 170, 'thorough': 1700}
REQUIRED = {'quick': {'landed': 150, 'land:except_handler': 3, 'land:finally': 5, 'land:result_send': 5, 'mode:kill': 30, 'mode:terminate': 100, 'remote_big_result_polled': 10, 'scenario:state_unrebuildable': 20, 'unrebuildable_partial_result': 40},
            'thorough': {'landed': 1500, 'land:except_handler': 30, 'land:finally': 50, 'land:result_send': 50}}

_ACC = ['is_alive', 'has_error', 'result', 'error', 'wait0', 'terminate0']
_observe = st.lists(st.sampled_from(_ACC), min_size=4, max_size=8)
_items = st.lists(st.sampled_from([1, 2, 3, 'POISON', 'UNPICKLABLE']), max_size=3)


def examples(tier):
    return 1000 if tier == 'quick' else 8000


def shards(tier):
    return 16


def strategy(tier):
    one = st.fixed_dictionaries({
        'kind': st.sampled_from(IC.ONE_SHOT), 'scenario': st.sampled_from(['quick_return', 'raise_own', 'loop_finally']),
        'inject': st.one_of(
            st.fixed_dictionaries({'mode': st.just('terminate'), 'n_raw': st.integers(0, 400)}),
            st.fixed_dictionaries({'mode': st.just('terminate'), 'n_raw': st.integers(0, 400)}),
            st.fixed_dictionaries({'mode': st.just('kill'), 'n_raw': st.integers(0, 400), 'sig': st.sampled_from(['SIGKILL', 'SIGTERM'])})),
        'observe': _observe})
    pers = st.fixed_dictionaries({
        'kind': st.sampled_from(IC.PERSISTENT), 'scenario': st.just('persist'), 'items': _items, 'close': st.booleans(),
        'pipe': st.sampled_from(['default', 'default', 'supplied']),
        'inject': st.one_of(
            st.fixed_dictionaries({'mode': st.just('terminate'), 'n_raw': st.integers(0, 400)}),
            st.fixed_dictionaries({'mode': st.just('terminate'), 'n_raw': st.integers(0, 400)}),
            st.fixed_dictionaries({'mode': st.just('kill'), 'n_raw': st.integers(0, 400), 'sig': st.sampled_from(['SIGKILL', 'SIGTERM'])}),
            st.just({'mode': 'none'})),
        'observe': _observe})
    own = st.fixed_dictionaries({
        'kind': st.sampled_from(IC.ONE_SHOT),
        'scenario': st.sampled_from(['quick_return', 'raise_own', 'raise:NeedsArgs', 'raise:Unpicklable', 'raise:KeyboardInterrupt', 'raise:SystemExit',
                                     'raise:Custom', 'raise:KeyError']),
        'inject': st.just({'mode': 'none'}), 'observe': _observe})
    big = st.fixed_dictionaries({
        'kind': st.just('process'), 'scenario': st.sampled_from(['big:300000', 'big:1000000', 'big:4000000']),
        'inject': st.just({'mode': 'kill_external', 'sig': 'SIGKILL'}), 'observe': _observe})
    bigpoll = st.fixed_dictionaries({
        'kind': st.sampled_from(['remote', 'remote', 'process', 'thread']), 'scenario': st.sampled_from(['big:4000000', 'slowload:300', 'slowload:300', 'slowload:100', 'quick_return']),
        'inject': st.just({'mode': 'none'}), 'poll': st.sampled_from([0, 0.001, 0.01]),
        'observe': st.lists(st.sampled_from(['has_error', 'result', 'error', 'has_error', 'is_alive', 'wait0']), min_size=4, max_size=8)})
    stu = st.fixed_dictionaries({
        'kind': st.sampled_from(['remote', 'process', 'p_remote', 'p_process', 'thread']), 'scenario': st.just('state_unrebuildable'),
        'inject': st.just({'mode': 'none'}), 'observe': st.lists(st.sampled_from(['has_error', 'result', 'error', 'is_alive', 'user_state', 'has_error']), min_size=4, max_size=8)})
    unp = st.fixed_dictionaries({
        'kind': st.sampled_from(['p_remote', 'p_remote', 'p_process', 'p_thread']), 'scenario': st.just('persist'),
        'items': st.builds(lambda a, b: a + ['UNPICKLABLE'] + b, st.lists(st.sampled_from([1, 2]), max_size=1), st.lists(st.sampled_from([3, 'UNPICKLABLE', 'POISON']), max_size=2)),
        'close': st.booleans(), 'pipe': st.sampled_from(['default', 'default', 'supplied']), 'inject': st.just({'mode': 'none'}), 'observe': _observe})
    # a partial result the CHILD cannot even serialise (a lock): the worker ends there with the pickling TypeError, the counter of the child is one
    # ahead of what reached the wire (round-4 seed C01-m8: an assert on the two counters killed the parent's forwarding thread)
    uns = st.fixed_dictionaries({
        'kind': st.sampled_from(['p_remote', 'p_remote', 'p_process']), 'scenario': st.just('persist'),
        'items': st.builds(lambda a, b: a + ['UNSENDABLE'] + b, st.lists(st.sampled_from([1, 2]), max_size=2), st.lists(st.sampled_from([3, 'POISON']), max_size=1)),
        'close': st.booleans(), 'pipe': st.sampled_from(['default', 'default', 'supplied']), 'inject': st.just({'mode': 'none'}), 'observe': _observe})
    return st.one_of(one, one, one, pers, pers, own, big, bigpoll, stu, unp, uns)


def exhaustive(tier, shard, nshards):
    # every landing index for the one-shot thread and process workers (returning and raising target)
    kinds = ['thread', 'process'] if tier == 'quick' else IC.ONE_SHOT
    scen = ['quick_return', 'raise_own'] if tier == 'quick' else ['quick_return', 'raise_own', 'loop_finally']
    idx = 0
    for kind in kinds:
        for sc in scen:
            for k in range(0, 130 if tier == 'quick' else 260):
                idx += 1
                if idx % nshards != shard:
                    continue
                yield {'kind': kind, 'scenario': sc, 'inject': {'mode': 'terminate', 'n_index': k}, 'observe': ['has_error', 'result', 'error', 'is_alive', 'has_error', 'error', 'wait0']}
    if tier == 'thorough':
        for kind in IC.PERSISTENT:
            for items, close in (([], True), ([1, 2], True), ([1, 'POISON'], False), ([1], False)):
                for k in range(0, 320):
                    idx += 1
                    if idx % nshards != shard:
                        continue
                    yield {'kind': kind, 'scenario': 'persist', 'items': items, 'close': close, 'pipe': 'default',
                           'inject': {'mode': 'terminate', 'n_index': k}, 'observe': ['has_error', 'result', 'error', 'is_alive', 'has_error', 'error']}


def expected(case):
    """(allowed shape A results or None, allowed errors set description)"""
    sc = case['scenario']
    mode = case.get('inject', {}).get('mode', 'none')
    kind = case['kind']
    a_results = None      # list of allowed encoded results for shape A (None = shape A impossible)
    errs = []             # allowed error descriptors
    if sc == 'quick_return':
        a_results = [IC.enc(('ok', 7))]
    elif sc == 'loop_finally':
        a_results = [IC.enc(('done', case.get('rounds', 3)))]
    elif sc == 'raise_own':
        errs.append({'exc': 'ValueError', 'args': repr(('own', 'x', 2))})
    elif sc.startswith('big:'):
        a_results = ['BIG']
    elif sc == 'state_unrebuildable':
        # the work itself ends normally; only the child's final user_state cannot be rebuilt by the parent
        a_results = [1] if kind.startswith('p_') else [IC.enc(('seen', '0'))]
        errs.append(None)
    elif sc.startswith('slowload:'):
        a_results = [{'repr': 'SlowLoad(%s)' % (int(sc.split(':')[1]) / 1000.0)}]
    elif sc.startswith('raise:'):
        k = sc.split(':')[1]
        if k in ('ValueError', 'KeyError', 'Custom'):
            errs.append({'exc': k, 'args': repr(('a', 1))})
        elif k == 'NeedsArgs':
            errs.append({'exc': 'NeedsArgs', 'args': repr(('1-2',))})
            if not kind.endswith('thread'):
                errs.append(None)
        elif k == 'Unpicklable':
            errs.append({'exc': 'Custom', 'args': repr(('unpicklable attr',))})
            if not kind.endswith('thread'):
                errs.append(None)
        elif k == 'KeyboardInterrupt':
            errs.append({'exc': 'KeyboardInterrupt', 'args': repr(())})
            if not kind.endswith('thread'):
                errs.append(None)
        elif k == 'SystemExit':
            errs.append({'exc': 'SystemExit', 'args': repr((3,))})
            if not kind.endswith('thread'):
                errs.append(None)
    elif sc == 'persist':
        items = case.get('items', [])
        pre = [x for x in items[:items.index('POISON')]] if 'POISON' in items else list(items)     # every item before a poison one is processed
        poison = 'POISON' in items
        if poison:
            errs.append({'exc': 'ValueError', 'args': repr(('poison item',))})
            a_results = list(range(0, len(pre) + 1)) if mode != 'none' else None
        else:
            a_results = [len(pre)] if mode == 'none' else list(range(0, len(pre) + 1))
        if 'UNSENDABLE' in pre and kind in ('p_remote', 'p_process'):
            # the child's own attempt to pickle the result raises TypeError inside its run loop: that is the exception that ends the worker
            errs[:] = [{'exc': 'TypeError', 'args': '*'}]
            a_results = None
        if 'UNPICKLABLE' in pre and kind == 'p_remote':
            # a partial result that the parent cannot rebuild travels on the same connection as the final outcome: a parent that gives up
            # on the stream has no exception to report (shape B with error None); what it may not do is stay without an outcome
            errs.append(None)
    if mode == 'terminate':
        errs.append({'exc': 'WorkerTerminatedError', 'args': repr(('terminate called',))})
    if mode in ('kill', 'kill_external'):
        errs.append(None)
    return a_results, errs


def run_case(case, ctx):
    out = Out()
    inj = dict(case.get('inject') or {'mode': 'none'})
    mode = inj['mode']
    kind = case['kind']
    c = dict(case)
    if mode in ('terminate', 'kill'):
        if mode == 'kill' and kind.endswith('thread'):
            out.excluded = 'signals cannot target a thread worker'
            return out
        cen = IC.census(case, ctx)
        span = cen['M'] - cen['s0']
        if span <= 0:
            out.excluded = 'empty census'
            return out
        if 'n_index' in inj:
            if inj['n_index'] >= span:
                out.excluded = 'index beyond the census of this scenario'
                return out
            inj['n'] = cen['s0'] + inj['n_index']
        else:
            inj['n'] = cen['s0'] + inj['n_raw'] % span
        c['inject'] = inj
    obs = IC.execute(c, ctx)
    out.label('kind:' + kind, 'mode:' + mode, 'scenario:' + case['scenario'].split(':')[0])
    if 'UNPICKLABLE' in (case.get('items') or []):
        out.label('unrebuildable_partial_result')
    if 'UNSENDABLE' in (case.get('items') or []):
        out.label('unsendable_partial_result')
    site = (mode + '@' + IC.region_of(obs.get('reached'))) if mode in ('terminate', 'kill') else mode + ':' + kind + ':' + case['scenario'].split(':')[-1 if case['scenario'].startswith('raise:') else 0]
    if obs['ctor'] != 'ok':
        out.obs = {'ctor': obs['ctor']}
        out.label('ctor_failed')
        # construction problems belong to C20; here they only cost coverage
        out.excluded = 'constructor did not return a worker: ' + obs['ctor'][:60]
        return out
    reached = obs.get('reached')
    if reached:
        out.label('landed')
        region = IC.region_of(reached)
        parts = region.split(':')[-1].split('>')
        if 'handler' in parts:
            out.label('land:except_handler')
        if 'finally' in parts:
            out.label('land:finally')
        if 'try_line' in parts:
            out.label('land:try_line')
        txt = IC.line_text(reached['file'], reached['line'])
        if any(IC.stack_has(reached, f) for f in ('put', 'send', '_send_result', 'send_msg')) or 'put((' in txt or '_result = (' in txt \
                or 'send_msg(self._socket, result' in txt:
            out.label('land:result_send')
        if IC.stack_has(reached, 'loop_finally') or IC.stack_has(reached, 'quick_return') or IC.stack_has(reached, 'raise_own') or IC.stack_has(reached, 'item_or_raise'):
            out.label('land:in_target')
        if obs.get('delivered'):
            out.label('delivered')
    if case.get('poll') is not None:
        out.label('polled_wait')
        if case['scenario'].startswith(('big:', 'slowload:')) and kind == 'remote':
            out.label('landed', 'remote_big_result_polled')
    if mode == 'kill_external' and obs.get('was_alive_at_kill'):
        out.label('landed', 'killed_while_sending_big_result')
    out.nontrivial = 'landed' in out.labels
    out.key = {'kind': kind, 'sc': case['scenario'], 'items': case.get('items'), 'close': case.get('close'), 'mode': mode, 'n': inj.get('n'), 'sig': inj.get('sig')}

    if not obs['dead']:
        # the worker was not observed dead by the scripted wait/terminate: nothing to judge for C01 (C03/C04 judge that)
        out.label('not_dead')
        out.obs = {'site': site, 'dead': False, 'term_ret': obs.get('term_ret'), 'wait_ret': obs.get('wait_ret')}
        return out

    a_results, errs = expected(case)
    reads = obs['reads']
    first = {}
    for what, val in reads:
        if isinstance(val, dict) and ('raised' in val or 'blocked' in val):
            out.viol('accessor_raised:' + str(val.get('raised', 'blocked')), site, f'{what} on a dead worker: {val}')
            continue
        if what in first:
            if first[what] != val:
                out.viol('outcome_changed', site, f'{what} first read {first[what]!r} later {val!r}')
        else:
            first[what] = val
        if what == 'is_alive' and val is not False:
            out.viol('alive_after_death', site, f'is_alive() returned {val!r} after the worker was observed dead')
        if what in ('wait0', 'terminate0') and val is not True:
            out.viol('wait_or_terminate_false_on_dead', site, f'{what} returned {val!r} on a dead worker')
    he, res, err = first.get('has_error', 'unread'), first.get('result', 'unread'), first.get('error', 'unread')
    if he != 'unread':
        if he is None:
            out.viol('has_error_none', site, 'dead worker reports has_error None')
        elif he not in (True, False):
            out.viol('has_error_not_bool', site, repr(he))
    if he is False:
        if err not in ('unread', None):
            out.viol('shape_mixed', site, f'has_error False but error {err!r}')
        if a_results is None:
            out.viol('success_impossible', site, f'has_error False although the scenario cannot return (result {res!r})')
        elif res != 'unread':
            if a_results == ['BIG']:
                ok = isinstance(res, dict) and 'repr' in res
            else:
                ok = res in a_results
            if not ok:
                out.viol('wrong_result', site, f'result {res!r} not in {a_results!r}')
    if he is True:
        if res not in ('unread', None):
            out.viol('shape_mixed', site, f'has_error True but result {res!r}')
        if err != 'unread' and err not in errs and not (isinstance(err, dict) and {'exc': err.get('exc'), 'args': '*'} in errs):
            if err is None:
                out.viol('error_missing', site, f'has_error True, error None although the worker was neither killed nor its exception untransferable (allowed: {errs})')
            else:
                out.viol('wrong_error', site, f'error {err!r} not in allowed {errs!r}')
    out.obs = {'site': site, 'line': IC.site_of(obs.get('reached')), 'stack': (obs.get('reached') or {}).get('stack'), 'delivered': obs.get('delivered'), 'has_error': he, 'result': res, 'error': err, 'term_ret': obs.get('term_ret'),
               'wait_ret': obs.get('wait_ret'), 'reads': len(reads)}
    return out


def teardown_shard(ctx):
    IC.stop_server(ctx)


def _landing_in(case, outd, v, pred):
    return pred(v.get('site') or '')


TRIGGERS = {}

