"""C08 - Pool failure reports are sound (engine POOLSIM; shares generator and simulator with C07)."""
from props import c07 as _c07
import poolcases
from core import Out

ID = 'C08'
LEVEL = 'exploration'
WHICH = 'C08'
RULE = ('same schedule/death space as C07 (tape-driven simulated workers behind the real Pool.run) x retry {on, off} x return_results {on, off}, plus multi-run histories (runs / restart_workers / kills / add_worker on one pool); '
        'the oracle is computed from the scheduler event log: who was handed what, who answered what, who died when. '
        'Non-trivial = a death or a refusal occurred, or extra>=1 with >=2 workers; distinct = distinct (configuration, executed event trace).')
ASSUMPTIONS = list(_c07.ASSUMPTIONS) + ['a PoolError raised while a live worker exists is only judged when that worker would accept every unfinished input']
SHRINK = 'greedy'
SHRINK_RUNS = 400
TIME_BUDGET = _c07.TIME_BUDGET
FUZZ = _c07.FUZZ
REQUIRED = {
    'quick': {'death': 1000, 'all_dead': 100, 'retry_off': 1000, 'retry_on': 1000, 'return_results_off': 500, 'end:poolerror': 300,
              'refusing_enqueue_fn': 100, 'poisoned': 50, 'transient_enqueue_failure': 100, 'equal_inputs_and_death': 100},
    'thorough': {'death': 10000, 'all_dead': 1000, 'retry_off': 10000, 'retry_on': 10000, 'return_results_off': 5000, 'end:poolerror': 3000,
                 'refusing_enqueue_fn': 1000, 'poisoned': 500},
}
examples = _c07.examples
shards = _c07.shards
def simplify(case):
    if 'history' in case:
        yield from poolcases.simplify_history(case)
    else:
        yield from poolcases.simplify(case)


_HIST_SYMPTOMS = ('poolerror_with_live_worker', 'foreign_value', 'duplicate')


def strategy(tier):
    from hypothesis import strategies as st
    return st.one_of(poolcases.config(retry_choices=(True, False), rr_choices=(True, False)), poolcases.config(retry_choices=(True, False), rr_choices=(True, False)),
                     poolcases.config(retry_choices=(True, False), rr_choices=(True, False)), poolcases.history_config())


_last = {}
_exh = {'complete': 0, 'capped': 0}


def exhaustive(tier, shard, nshards):
    cfgs = []
    for cfg in _c07.dfs_configs(tier):
        if len(cfg['inputs']) + cfg['workers'] > 5 and tier == 'quick':
            continue
        cfgs.append(dict(cfg, retry=False))
        cfgs.append(dict(cfg, retry=True, return_results=False))
    for ci, cfg in enumerate(cfgs):
        if ci % nshards != shard:
            continue
        vec = []
        n = 0
        while True:
            case = dict(cfg, tape=list(vec), dfs=True)
            _last.clear()
            yield case
            n += 1
            ch = _last.get('choices')
            if ch is None:
                break
            i = len(ch) - 1
            while i >= 0 and ch[i][1] + 1 >= ch[i][0]:
                i -= 1
            if i < 0:
                _exh['complete'] += 1
                break
            vec = [v for _, v in ch[:i]] + [ch[i][1] + 1]
            if n >= _c07.DFS_CAP[tier]:
                _exh['capped'] += 1
                break


def run_case(case, ctx):
    if 'history' in case:
        # several runs on one pool with restarts / kills in between: PoolError soundness and genuineness of results per run
        out = poolcases.run_history(case)
        out.violations = [v for v in out.violations if v['symptom'] in _HIST_SYMPTOMS]
        out.label('history', 'death' if 'kill_between_runs' in out.labels else 'history_no_kill')
        return out
    dfs = bool(case.get('dfs'))
    out, sim = poolcases.run(case, WHICH, dfs=dfs)
    if dfs:
        _last['choices'] = list(sim.sched.choices)
        out.label('dfs_schedule')
    return out


def finish_shard(ctx):
    ctx.stats.extra['dfs_configurations_exhausted'] += _exh['complete']
    ctx.stats.extra['dfs_configurations_capped'] += _exh['capped']


def _refusal(case, outd, v):
    return bool(case.get('refuse')) and 'refusal_happened' in outd['labels']


TRIGGERS = {'enqueue_fn_refused_an_input': _refusal}


def _enq_dead_unread(case, outd, v):
    return 'enqueue_to_dead_with_unread_result' in outd['labels'] and not case.get('retry', True)


TRIGGERS['enqueue_to_dead_worker_with_unread_result'] = _enq_dead_unread
