"""C17 - restart() always yields a fresh, equivalent, live worker (engine OS)."""
import os
import queue
import signal
import time

from hypothesis import strategies as st

from core import Out, bounded, Blocked, pid_alive, wait_gone
import injcases as IC
import vtargets

ID = 'C17'
LEVEL = 'exploration'
RULE = ('case = (persistent worker kind, 1-3 consecutive restarts, state before each restart {never used, results unread, inputs still queued behind a slow item, '
        'closed, died by target exception, SIGKILLed, stuck in an exception-swallowing target}, results pipe {own, caller-supplied Pipe() as the Pool does}); '
        'restart(timeout=0.5). Oracle: restart returns under the guard with is_alive() True, same name/userid, defaults still merged the same way, new id and old '
        'pid gone for process/remote kinds, call(x) right after restart returns the value for x (no stale result), wait() -> result counts only post-restart '
        'items; thread kind stuck in an uncooperative target: restart raises RuntimeError and the old thread is still the worker. '
        'Non-trivial = state other than never-used; distinct = distinct case.')
ASSUMPTIONS = ['restart(timeout=0.5) is used because the default None legitimately waits for an endless item', 'guard 40 s']
SHRINK = 'none'
TIME_BUDGET = {'quick': 170, 'thorough': 1700}
STATES = ['fresh', 'unread', 'queued', 'closed', 'error', 'killed', 'stuck']
REQUIRED = {'quick': {'state:' + s_: 15 for s_ in STATES}, 'thorough': {'state:' + s_: 150 for s_ in STATES}}
REQUIRED['quick']['pipe:supplied'] = 100
REQUIRED['quick']['falsy_userid'] = 100


def examples(tier):
    return 640 if tier == 'quick' else 4000


def shards(tier):
    return 16


def strategy(tier):
    return st.fixed_dictionaries({
        'kind': st.sampled_from(IC.PERSISTENT),
        'states': st.lists(st.sampled_from(STATES), min_size=1, max_size=3),
        'pipe': st.sampled_from(['own', 'supplied']),
        'userid': st.sampled_from([0, 4711, 4711, '', None]),
    })


def run_case(case, ctx):
    from pyworkers.utils import Pipe
    out = Out()
    kind = case['kind']
    thread = kind.endswith('thread')
    cls = IC.KINDS[kind]
    out.label('kind:' + kind, 'pipe:' + case['pipe'])
    name = IC.fresh_name(ctx, 'c17')
    escape = os.path.join(ctx.scratch, name + '.escape')
    uid = case.get('userid', 4711)
    kw = {'name': name, 'userid': uid, 'args': ['D0', 'D1', escape]}
    if not uid:
        out.label('falsy_userid')
    if kind.endswith('remote'):
        kw['host'] = IC.server(ctx).addr
    if case['pipe'] == 'supplied':
        kw['results_pipe'] = Pipe()
    try:
        w = bounded(cls, 25, vtargets.echo2, **kw)
    except BaseException as e:
        out.excluded = 'constructor failed: ' + type(e).__name__
        return out
    out.nontrivial = any(s_ != 'fresh' for s_ in case['states'])
    log = []
    old_threads = []
    try:
        for rnd, state in enumerate(case['states']):
            out.label('state:' + state)
            site = f'{kind}:{state}' + (':supplied' if case['pipe'] == 'supplied' else '')
            old_id, old_pid = w.id, w.pid
            # ---- bring the worker into the state
            try:
                if state == 'unread':
                    w.enqueue('u1'); w.enqueue('u2')
                    time.sleep(0.1)
                elif state == 'queued':
                    w.enqueue('SLOW'); w.enqueue('q1'); w.enqueue('q2')
                elif state == 'closed':
                    w.enqueue('c1')
                    w.close()
                elif state == 'error':
                    w.enqueue('POISON')
                    bounded(w.wait, 20, 5)
                elif state == 'killed':
                    if thread:
                        w.enqueue('k1')
                    else:
                        w.enqueue('k1')
                        time.sleep(0.05)
                        os.kill(w.pid, signal.SIGKILL)
                        wait_gone([w.pid], 5)
                elif state == 'stuck':
                    w.enqueue('SWALLOW')
                    time.sleep(0.3)
            except BaseException as e:
                out.excluded = f'could not reach state {state}: {type(e).__name__}'
                return out
            # ---- restart
            rkw = {'timeout': 0.5}
            if case['pipe'] == 'supplied':
                rkw['results_pipe'] = Pipe()
            t0 = time.monotonic()
            try:
                bounded(w.restart, 40, **rkw)
                rr = 'ok'
            except Blocked:
                rr = 'blocked'
            except RuntimeError as e:
                rr = 'RuntimeError'
            except BaseException as e:
                rr = 'raised:' + type(e).__name__ + ':' + str(e)[:100]
            log.append([state, rr, round(time.monotonic() - t0, 2)])
            if rr == 'blocked':
                out.viol('restart_blocked', site, 'restart(timeout=0.5) did not return within 40 s')
                break
            if state == 'stuck' and thread:
                if rr != 'RuntimeError':
                    out.viol('stuck_thread_restart_did_not_raise', site, f'restart of a thread worker stuck in an uncooperative target: {rr}')
                else:
                    try:
                        if not w.is_alive():
                            out.viol('stuck_thread_abandoned', site, 'restart raised but the worker no longer tracks its (still running) thread')
                    except BaseException as e:
                        out.viol('stuck_thread_abandoned', site, 'is_alive() after the failed restart raised ' + type(e).__name__)
                # release the stuck thread and stop here
                open(escape, 'w').close()
                break
            if rr != 'ok':
                out.viol('restart_' + rr.split(':')[0] + (':' + rr.split(':')[1] if rr.startswith('raised') else ''), site, rr)
                break
            # ---- the new incarnation
            try:
                if not bounded(w.is_alive, 10):
                    out.viol('not_alive_after_restart', site, 'is_alive() False right after restart()')
                    break
                if w.name != name or w.userid != uid or type(w.userid) is not type(uid):
                    out.viol('identity_attributes_changed', site, f'name/userid after restart: {w.name!r}/{w.userid!r}')
                if not thread:
                    if w.id == old_id:
                        out.viol('same_id_after_restart', site, repr(w.id))
                    if old_pid and old_pid != os.getpid() and pid_alive(old_pid):
                        if wait_gone([old_pid], 2.0):
                            out.viol('old_child_still_running', site, f'old child pid {old_pid} alive after restart() returned')
                x = f'x{rnd}'
                try:
                    v = bounded(w.call, 20, x)
                except queue.Empty:
                    v = 'EMPTY'
                if v != ('r', x, 'D1'):
                    out.viol('stale_or_wrong_result_after_restart', site, f'call({x!r}) returned {v!r}, expected {("r", x, "D1")!r}')
                    break
            except Blocked:
                out.viol('new_incarnation_unresponsive', site, 'is_alive()/call() on the restarted worker blocked')
                break
            except BaseException as e:
                out.viol('new_incarnation_raised:' + type(e).__name__, site, str(e)[:200])
                break
        else:
            # final: counter counts only post-restart items of the last incarnation
            try:
                w.enqueue('f1')
                ok = bounded(w.wait, 30)
                got = list(w.results_iter())
                res = w.result
                if ok is not True or res != 2 or got != [('r', 'f1', 'D1')]:
                    out.viol('counter_or_stream_not_fresh', f'{kind}:{case["states"][-1]}', f'after the last restart: call + 1 enqueue; wait={ok} result={res!r} remaining stream={got!r}')
            except Blocked:
                out.viol('new_incarnation_unresponsive', kind, 'final wait blocked')
            except BaseException as e:
                out.viol('new_incarnation_raised:' + type(e).__name__, kind, str(e)[:200])
        out.obs = {'rounds': log}
    finally:
        try:
            open(escape, 'w').close()
        except OSError:
            pass
        try:
            pid = w.pid
            if not thread and pid and pid != os.getpid() and pid_alive(pid):
                os.kill(pid, signal.SIGKILL)
            bounded(w.terminate, 10, 1, False) if thread else bounded(w.terminate, 10, 1)
        except BaseException:
            pass
        try:
            os.unlink(escape)
        except OSError:
            pass
    return out


def teardown_shard(ctx):
    IC.stop_server(ctx)


TRIGGERS = {}
