"""C17 - restart() always yields a fresh, equivalent, live worker (engine OS)."""
import os
import queue
import signal
import time

from hypothesis import strategies as st

from core import Out, bounded, Blocked, pid_alive, wait_gone
import injcases as IC
import vtargets

ID = 'C17'
LEVEL = 'exploration'
RULE = ('case = (persistent worker kind, 1-3 consecutive restarts, state before each restart {never used, results unread, inputs still queued behind a slow item, '
        'closed, died by target exception, SIGKILLed, stuck in an exception-swallowing target}, results pipe {own, caller-supplied Pipe() as the Pool does}); '
        'restart(timeout=0.5). Oracle: restart returns under the guard with is_alive() True, same name/userid, defaults still merged the same way, new id and old '
        'pid gone for process/remote kinds, call(x) right after restart returns the value for x (no stale result), wait() -> result counts only post-restart '
        'items; thread kind stuck in an uncooperative target: restart raises RuntimeError and the old thread is still the worker. '
        'Two more case kinds: Pool.restart_workers(timeout) over 1-3 workers one of which may be a thread worker stuck in an exception-swallowing target (it may raise, but '
        'the pool must still hold every worker, the unstoppable one included); restart(timeout) of a persistent remote worker whose parent-side forwarding thread is held '
        'while it forwards the last result of the old incarnation (restart raises, or the new stream never shows that result). '
        'Non-trivial = state other than never-used; distinct = distinct case.')
ASSUMPTIONS = ['restart(timeout=0.5) is used because the default None legitimately waits for an endless item', 'guard 40 s']
SHRINK = 'none'
TIME_BUDGET = {'quick': 170, 'thorough': 1700}
STATES = ['fresh', 'unread', 'queued', 'closed', 'error', 'killed', 'stuck', 'unreadable_then_stuck']
REQUIRED = {'quick': {'state:' + s_: 15 for s_ in STATES}, 'thorough': {'state:' + s_: 60 for s_ in STATES}}
REQUIRED['quick']['pipe:supplied'] = 100
REQUIRED['quick']['falsy_userid'] = 100
REQUIRED['quick']['pool_with_unstoppable_worker'] = 20
REQUIRED['quick']['forwarder_held'] = 20
INJECT = True


def examples(tier):
    return 700 if tier == 'quick' else 4500


def shards(tier):
    return 16


def strategy(tier):
    plain = st.fixed_dictionaries({
        'kind': st.sampled_from(IC.PERSISTENT),
        'states': st.lists(st.sampled_from(STATES), min_size=1, max_size=3),
        'pipe': st.sampled_from(['own', 'supplied']),
        'userid': st.sampled_from([0, 4711, 4711, '', None]),
        'enumerate': st.booleans(),
    })
    # the way the Pool restarts: restart_workers() over 1-3 workers of which one may be a thread worker that cannot be stopped
    pool = st.fixed_dictionaries({'pool_restart': st.just(True), 'workers': st.lists(st.sampled_from(['thread', 'process', 'stuck_thread', 'thread']), min_size=1, max_size=3),
                                  'timeout': st.sampled_from([0.2, 0.5])})
    # restart of a remote worker whose parent-side forwarding thread is held while it forwards the last result of the old incarnation
    # ('pre': calls made while the thread is held that already find the remote child gone - the restart that is judged comes after them;
    # round-4 seed C17-m7: a second wait()/restart() took "remote child dead" for "worker dead" and re-initialised over the running thread)
    held = st.fixed_dictionaries({'held_forwarder': st.just(True), 'items': st.integers(1, 3), 'n_raw': st.integers(0, 30), 'timeout': st.sampled_from([0.2, 0.5]),
                                  'pre': st.sampled_from([[], [], ['close_wait'], ['wait'], ['terminate'], ['restart'], ['close_wait', 'wait'], ['terminate', 'wait']])})
    return st.one_of(plain, plain, plain, plain, plain, plain, pool, held)


def run_pool_restart(case, ctx):
    from pyworkers.pool import Pool
    from pyworkers.worker import WorkerType
    out = Out()
    out.label('pool_restart_workers')
    escape = os.path.join(ctx.scratch, IC.fresh_name(ctx, 'c17pool') + '.escape')
    pool = Pool(vtargets.sq, name='c17pool')
    stuck = None
    site = 'pool.restart_workers'
    try:
        for k in case['workers']:
            if k == 'stuck_thread' and stuck is None:
                stuck = bounded(pool.add_worker, 25, WorkerType.THREAD, target=vtargets.swallow_everything)
                stuck.enqueue(escape)
                out.label('pool_with_unstoppable_worker')
            else:
                bounded(pool.add_worker, 25, WorkerType.THREAD if k != 'process' else WorkerType.PROCESS)
        if stuck is not None:
            time.sleep(0.1)
        before = list(pool.workers)
        out.nontrivial = True
        try:
            bounded(pool.restart_workers, 60, timeout=case['timeout'])
            ret = 'returned'
        except Blocked:
            out.viol('restart_workers_blocked', site, '')
            return out
        except RuntimeError as e:
            ret = 'RuntimeError'
        except Exception as e:
            ret = 'raised:' + type(e).__name__
            out.viol('restart_workers_' + ret, site, repr(e)[:200])
        after = list(pool.workers)
        if stuck is not None:
            site += ':unstoppable_thread_worker'
            # the old incarnation cannot be stopped: raising is right, abandoning the running child is not - the pool must still know it
            if ret == 'returned' and stuck.is_alive() and not os.path.exists(escape):
                pass     # (a fresh live worker under the same object would have required stopping the old thread)
            if not any(w is stuck for w in after):
                out.viol('pool_abandoned_running_worker', site, f'restart_workers() -> {ret}; the worker that could not be stopped is no longer among pool.workers ({len(before)} -> {len(after)} workers)')
        if len(after) != len(before):
            out.viol('worker_count_changed_by_restart', site, f'{len(before)} -> {len(after)} (restart_workers {ret})')
        if ret == 'returned':
            dead = [w for w in after if not w.is_alive()]
            if dead:
                out.viol('restart_left_dead_worker', site, f'{len(dead)} of {len(after)} workers are not alive after restart_workers()')
        out.obs = {'workers': case['workers'], 'restart_workers': ret, 'before': len(before), 'after': len(after)}
    finally:
        try:
            open(escape, 'w').close()
        except OSError:
            pass
        time.sleep(0.05)
        try:
            bounded(pool.terminate, 30, timeout=1)
        except BaseException:
            pass
        if stuck is not None:
            try:
                bounded(stuck.terminate, 10, 1, False)
            except BaseException:
                pass
        try:
            os.unlink(escape)
        except OSError:
            pass
    return out


_front_cache = {}


def run_held_forwarder(case, ctx):
    import inject
    from pyworkers.persistent_remote import PersistentRemoteWorker
    out = Out()
    out.label('held_forwarder')
    items = list(range(10, 10 + case['items']))

    def census_once():
        name = IC.fresh_name(ctx, 'c17fc')
        inject.arm(name + '.front', 'census')
        w = bounded(PersistentRemoteWorker, 25, vtargets.echo2, name=name, args=['D0', 'D1'], host=IC.server(ctx).addr)
        for x in items:
            w.enqueue(x)
        w.close()
        bounded(w.wait, 25, 10)
        tr = inject.trace(name + '.front')
        inject.cleanup(name + '.front')
        idx = [i for i, e in enumerate(tr) if e[1] == 'persistent_remote.py' and e[2] == '_fetch_results']
        # the events of the last forwarded partial result: from the recv that returned it to the put into the results pipe
        puts = [i for i in idx if 'child_end.put(result)' in _src(tr[i][1], tr[i][3])]
        if not puts:
            return []
        last = puts[-1]
        return [tr[i][0] for i in idx if last - 6 <= i <= last]
    key = ('c17front', case['items'])
    cand = ctx.data.setdefault('census', {}).get(key)
    if cand is None:
        prev = None
        for _ in range(4):
            cand = census_once()
            if cand == prev:
                break
            prev = cand
        ctx.data['census'][key] = cand
    if not cand:
        out.excluded = 'no landing point in the census of the forwarding thread'
        return out
    n = cand[case['n_raw'] % len(cand)]
    name = IC.fresh_name(ctx, 'c17h')
    inject.arm(name + '.front', 'pause', n)
    site = 'p_remote:forwarding_thread_of_old_incarnation_held'
    w = None
    try:
        w = bounded(PersistentRemoteWorker, 25, vtargets.echo2, name=name, args=['D0', 'D1'], host=IC.server(ctx).addr)
        for x in items:
            w.enqueue(x)
        r = inject.wait_reached(name + '.front', 5.0)
        if not r:
            out.excluded = 'landing point not reached'
            return out
        out.label('forwarder_held')
        out.nontrivial = True
        old_child = w._child
        for pre in case.get('pre', []):
            out.label('held_forwarder_pre:' + pre)
            try:
                if pre == 'close_wait':
                    bounded(w.close, 20)
                    bounded(w.wait, 40, 0.5)
                elif pre == 'wait':
                    bounded(w.wait, 40, 0.3)
                elif pre == 'terminate':
                    bounded(w.terminate, 40, timeout=0.3)
                elif pre == 'restart':
                    bounded(w.restart, 40, timeout=case['timeout'])
            except Blocked:
                out.viol('call_blocked_with_forwarder_held', site, pre)
                return out
            except Exception:
                pass        # e.g. RuntimeError from a restart that cannot stop the old incarnation - the documented answer
        try:
            bounded(w.restart, 40, timeout=case['timeout'])
            ret = 'returned'
        except Blocked:
            out.viol('restart_blocked', site, '')
            return out
        except RuntimeError:
            ret = 'RuntimeError'       # "if the old incarnation cannot be stopped it raises"
            out.label('restart_refused_old_incarnation_not_stopped')
        except Exception as e:
            ret = 'raised:' + type(e).__name__
            out.viol('restart_' + ret, site, repr(e)[:200])
        inject.release(name + '.front')
        time.sleep(0.3)
        if ret == 'returned':
            out.label('restart_returned_with_forwarder_held')
            if old_child is not None and old_child.is_alive() and old_child is not w._child:
                time.sleep(0.5)
            try:
                v = bounded(w.call, 20, 777)
                if v != ('r', 777, 'D1'):
                    out.viol('stale_result_after_restart', site, f'call(777) right after restart() -> {v!r}: a result of the previous incarnation reached the new result stream')
                if not bounded(w.wait, 20, 10) or w.result != 1:
                    out.viol('counter_not_fresh_after_restart', site, f'result {w.result!r} after one post-restart item')
            except Blocked:
                out.viol('call_blocked_after_restart', site, '')
            except Exception as e:
                out.viol('call_after_restart_raised:' + type(e).__name__, site, repr(e)[:200])
        out.obs = {'n': n, 'restart': ret, 'at': f"{r['file']}:{r['func']}:{r['line']}"}
    finally:
        inject.release(name + '.front')
        inject.cleanup(name + '.front')
        if w is not None:
            try:
                bounded(w.terminate, 10, timeout=1)
            except BaseException:
                pass
    return out


_srcs = {}


def _src(fname, line):
    if fname not in _srcs:
        import pyworkers
        try:
            with open(os.path.join(os.path.dirname(pyworkers.__file__), fname)) as f:
                _srcs[fname] = f.read().splitlines()
        except OSError:
            _srcs[fname] = []
    return _srcs[fname][line - 1] if 0 < line <= len(_srcs[fname]) else ''


def run_case(case, ctx):
    if case.get('pool_restart'):
        return run_pool_restart(case, ctx)
    if case.get('held_forwarder'):
        return run_held_forwarder(case, ctx)
    from pyworkers.utils import Pipe
    out = Out()
    kind = case['kind']
    thread = kind.endswith('thread')
    cls = IC.KINDS[kind]
    out.label('kind:' + kind, 'pipe:' + case['pipe'])
    name = IC.fresh_name(ctx, 'c17')
    escape = os.path.join(ctx.scratch, name + '.escape')
    uid = case.get('userid', 4711)
    kw = {'name': name, 'userid': uid, 'args': ['D0', 'D1', escape]}
    if not uid:
        out.label('falsy_userid')
    if kind.endswith('remote'):
        kw['host'] = IC.server(ctx).addr
    if case['pipe'] == 'supplied':
        kw['results_pipe'] = Pipe()
    try:
        w = bounded(cls, 25, vtargets.echo2, **kw)
    except BaseException as e:
        out.excluded = 'constructor failed: ' + type(e).__name__
        return out
    out.nontrivial = any(s_ != 'fresh' for s_ in case['states'])
    log = []
    old_threads = []
    try:
        for rnd, state in enumerate(case['states']):
            out.label('state:' + state)
            site = f'{kind}:{state}' + (':supplied' if case['pipe'] == 'supplied' else '')
            old_id, old_pid = w.id, w.pid
            # ---- bring the worker into the state
            try:
                if state == 'unread':
                    w.enqueue('u1'); w.enqueue('u2')
                    time.sleep(0.1)
                elif state == 'queued':
                    w.enqueue('SLOW'); w.enqueue('q1'); w.enqueue('q2')
                elif state == 'closed':
                    w.enqueue('c1')
                    w.close()
                elif state == 'error':
                    w.enqueue('POISON')
                    bounded(w.wait, 20, 5)
                elif state == 'killed':
                    if thread:
                        w.enqueue('k1')
                    else:
                        w.enqueue('k1')
                        time.sleep(0.05)
                        os.kill(w.pid, signal.SIGKILL)
                        wait_gone([w.pid], 5)
                elif state == 'stuck':
                    w.enqueue('SWALLOW')
                    time.sleep(0.3)
                elif state == 'unreadable_then_stuck':
                    # the parent cannot rebuild one result (and gives up reading), the child is busy with the next input for good
                    w.enqueue('UNREADABLE'); w.enqueue('SWALLOW')
                    time.sleep(0.4)
            except BaseException as e:
                out.excluded = f'could not reach state {state}: {type(e).__name__}'
                return out
            if case.get('enumerate'):
                # somebody enumerates the registry while the worker is in that state (a dead worker is forgotten by that)
                from pyworkers.worker import Worker
                list(Worker.active_children())
                out.label('registry_enumerated_before_restart')
            # ---- restart
            rkw = {'timeout': 0.5}
            if case['pipe'] == 'supplied':
                rkw['results_pipe'] = Pipe()
            t0 = time.monotonic()
            try:
                bounded(w.restart, 40, **rkw)
                rr = 'ok'
            except Blocked:
                rr = 'blocked'
            except RuntimeError as e:
                rr = 'RuntimeError'
            except BaseException as e:
                rr = 'raised:' + type(e).__name__ + ':' + str(e)[:100]
            log.append([state, rr, round(time.monotonic() - t0, 2)])
            if rr == 'blocked':
                out.viol('restart_blocked', site, 'restart(timeout=0.5) did not return within 40 s')
                break
            if state in ('stuck', 'unreadable_then_stuck') and thread:
                if rr != 'RuntimeError':
                    out.viol('stuck_thread_restart_did_not_raise', site, f'restart of a thread worker stuck in an uncooperative target: {rr}')
                else:
                    try:
                        if not w.is_alive():
                            out.viol('stuck_thread_abandoned', site, 'restart raised but the worker no longer tracks its (still running) thread')
                    except BaseException as e:
                        out.viol('stuck_thread_abandoned', site, 'is_alive() after the failed restart raised ' + type(e).__name__)
                # release the stuck thread and stop here
                open(escape, 'w').close()
                break
            if rr == 'ok' and case.get('enumerate'):
                from pyworkers.worker import Worker
                if not any(c is w for c in Worker.active_children()):
                    out.viol('restarted_worker_not_among_active_children', site, 'restart() returned a live worker that Worker.active_children() does not list')
            if rr != 'ok':
                out.viol('restart_' + rr.split(':')[0] + (':' + rr.split(':')[1] if rr.startswith('raised') else ''), site, rr)
                break
            # ---- the new incarnation
            try:
                if not bounded(w.is_alive, 10):
                    out.viol('not_alive_after_restart', site, 'is_alive() False right after restart()')
                    break
                if w.name != name or w.userid != uid or type(w.userid) is not type(uid):
                    out.viol('identity_attributes_changed', site, f'name/userid after restart: {w.name!r}/{w.userid!r}')
                if not thread:
                    if w.id == old_id:
                        out.viol('same_id_after_restart', site, repr(w.id))
                    if old_pid and old_pid != os.getpid() and pid_alive(old_pid):
                        if wait_gone([old_pid], 2.0):
                            out.viol('old_child_still_running', site, f'old child pid {old_pid} alive after restart() returned')
                x = f'x{rnd}'
                try:
                    v = bounded(w.call, 20, x)
                except queue.Empty:
                    v = 'EMPTY'
                if v != ('r', x, 'D1'):
                    out.viol('stale_or_wrong_result_after_restart', site, f'call({x!r}) returned {v!r}, expected {("r", x, "D1")!r}')
                    break
            except Blocked:
                out.viol('new_incarnation_unresponsive', site, 'is_alive()/call() on the restarted worker blocked')
                break
            except BaseException as e:
                out.viol('new_incarnation_raised:' + type(e).__name__, site, str(e)[:200])
                break
        else:
            # final: counter counts only post-restart items of the last incarnation
            try:
                w.enqueue('f1')
                ok = bounded(w.wait, 30)
                got = list(w.results_iter())
                res = w.result
                if ok is not True or res != 2 or got != [('r', 'f1', 'D1')]:
                    out.viol('counter_or_stream_not_fresh', f'{kind}:{case["states"][-1]}', f'after the last restart: call + 1 enqueue; wait={ok} result={res!r} remaining stream={got!r}')
            except Blocked:
                out.viol('new_incarnation_unresponsive', kind, 'final wait blocked')
            except BaseException as e:
                out.viol('new_incarnation_raised:' + type(e).__name__, kind, str(e)[:200])
        out.obs = {'rounds': log}
    finally:
        try:
            open(escape, 'w').close()
        except OSError:
            pass
        try:
            pid = w.pid
            if not thread and pid and pid != os.getpid() and pid_alive(pid):
                os.kill(pid, signal.SIGKILL)
            bounded(w.terminate, 10, 1, False) if thread else bounded(w.terminate, 10, 1)
        except BaseException:
            pass
        try:
            os.unlink(escape)
        except OSError:
            pass
    return out


def teardown_shard(ctx):
    IC.stop_server(ctx)


TRIGGERS = {}
