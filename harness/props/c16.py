"""C16 - user_state is synchronised child-to-parent at end of life, and only then (engines INJECT + OS)."""
import os
import time

from hypothesis import strategies as st

from core import Out, bounded, Blocked
import injcases as IC
import inject
import vworkers

ID = 'C16'
LEVEL = 'exploration'
INJECT = True
RULE = ('case = (stateful subclass of one of the six worker classes, init_state from {None, 0, str, list, dict, custom object}, 0-10 child-side assignments, '
        'ending {return, exception, graceful terminate landing at the n-th traced line (inside / after the assignment loop)}, order in which the parent reads '
        'user_state / has_error / result after death, optional pause of the child after >=1 assignment during which the parent reads, chain of up to 3 '
        'incarnations (re-creation with init_state=previous user_state, or restart() for persistent kinds)). Oracle: while the child is alive and paused a '
        'process/remote parent sees init_state; after an ending that lets the child report, the parent sees the last assigned value (for terminate: the value of '
        'some prefix of the assignments) whichever accessor is read first; parent-side assignment raises RuntimeError alive, dead and not-run; the next '
        'incarnation first observes the previous final state. Late-phase cases hold the child right after it handed over its final result (process kinds) or the '
        'parent-side forwarding thread between final result and final state (remote kinds) while the parent calls wait(t) and reads: as long as nothing reported the '
        'worker dead the parent sees init_state, once wait()/is_alive() reported it dead the parent sees the last assigned value. Non-trivial = >=1 assignment and (non-return ending or chain>1 or paused read); distinct = distinct case.')
ASSUMPTIONS = ['thread kinds are excluded from the alive-phase read (documented as unspecified)', 'values are compared with ==']
SHRINK = 'none'
TIME_BUDGET = {'quick': 170, 'thorough': 1700}
REQUIRED = {'quick': {'ending:terminate': 20, 'ending:raise': 40, 'chain>1': 60, 'paused_read': 20, 'first_read:user_state': 100, 'restart': 20, 'inplace_mutation': 60, 'same_object_assigned_back': 40, 'death_observed_without_worker_api': 8, 'late_landing_reached': 40, 'busy_restart': 40, 'ending:return_lock': 40},
            'thorough': {'ending:terminate': 180, 'ending:raise': 180, 'chain>1': 250, 'paused_read': 130}}

_VALS = ['none', 'zero', 'str', 'list', 'dict', 'point', 5, 6, 7]
_ASSIGN = _VALS + ['inplace', 'inplace', 'list', 'dict']


def examples(tier):
    return 900 if tier == 'quick' else 7000


def shards(tier):
    return 16


def strategy(tier):
    inc = st.fixed_dictionaries({
        'values': st.lists(st.sampled_from(_ASSIGN), max_size=10),
        'nowait': st.booleans(),
        'ending': st.sampled_from(['return', 'return', 'raise', 'terminate', 'return_lock']),
        'n_raw': st.integers(0, 500),
        'pause': st.booleans(),
        'reads': st.permutations(['user_state', 'has_error', 'result']),
    })
    inplace_inc = st.fixed_dictionaries({
        'values': st.lists(st.just('inplace'), min_size=1, max_size=4), 'nowait': st.booleans(),
        'ending': st.sampled_from(['return', 'return', 'raise']), 'n_raw': st.integers(0, 500), 'pause': st.just(False),
        'reads': st.permutations(['user_state', 'has_error', 'result'])})
    same_object = st.fixed_dictionaries({
        'kind': st.sampled_from(IC.ONE_SHOT + IC.PERSISTENT), 'init': st.sampled_from(['list', 'dict']),
        'chain': st.lists(inplace_inc, min_size=1, max_size=3), 'use_restart': st.booleans(), 'assign_from_parent': st.just('never')})
    general = _general(inc)
    # the end of life under a magnifying glass: the child is held right after it has handed over its final result (process kinds), or the
    # parent-side forwarding thread is held between the final result and the final state (remote kinds), while the parent calls wait(t)
    late = st.fixed_dictionaries({
        'late': st.just(True), 'kind': st.sampled_from(['process', 'p_process', 'remote', 'p_remote']), 'init': st.sampled_from(_VALS),
        'values': st.lists(st.sampled_from(_VALS), min_size=1, max_size=4), 'n_raw': st.integers(0, 50), 'wait_t': st.sampled_from([0, 0.05, 0.3]),
        'reads_alive': st.lists(st.sampled_from(['user_state', 'is_alive', 'has_error', 'wait']), min_size=1, max_size=3)})
    # restart() of a persistent worker that is still busy (the old incarnation is ended by restart's own graceful terminate)
    busy = st.fixed_dictionaries({
        'busy_restart': st.just(True), 'kind': st.sampled_from(['p_process', 'p_process', 'p_remote', 'p_thread']), 'init': st.sampled_from(_VALS),
        'values': st.lists(st.sampled_from(_VALS), min_size=1, max_size=4), 'timeout': st.sampled_from([0.2, 0.5]), 'restarts': st.integers(1, 2)})
    # a process worker that assigns its state and then returns something that cannot be sent: the outcome becomes an error, the state still has to arrive
    inc_rl = st.fixed_dictionaries({
        'values': st.lists(st.sampled_from([5, 6, 7, 'list', 'str']), min_size=1, max_size=3), 'nowait': st.booleans(), 'ending': st.just('return_lock'),
        'n_raw': st.integers(0, 500), 'pause': st.just(False), 'reads': st.permutations(['user_state', 'has_error', 'result'])})
    rl = st.fixed_dictionaries({'kind': st.just('process'), 'init': st.sampled_from(['zero', 'none', 'dict']), 'chain': st.lists(inc_rl, min_size=1, max_size=2),
                                'use_restart': st.just(False), 'assign_from_parent': st.just('never')})
    return st.one_of(general, general, general, same_object, late, busy, rl)


def _general(inc):
    return st.fixed_dictionaries({
        'kind': st.sampled_from(IC.ONE_SHOT + IC.PERSISTENT),
        'init': st.sampled_from(_VALS),
        'chain': st.lists(inc, min_size=1, max_size=3),
        'use_restart': st.booleans(),
        'assign_from_parent': st.sampled_from(['alive', 'dead', 'norun', 'never']),
    })


def _apply(state, v):
    import copy
    if v == 'inplace':
        s2 = copy.deepcopy(state)
        if isinstance(s2, list):
            s2.append(9)
        elif isinstance(s2, dict):
            s2['m'] = 9
        return s2
    return vworkers.mkval(v)


def _eq(a, b):
    try:
        return type(a) is type(b) and a == b
    except Exception:
        return False


_src_cache = {}


def _src_line(fname, line):
    if fname not in _src_cache:
        import pyworkers
        try:
            with open(os.path.join(os.path.dirname(pyworkers.__file__), fname)) as f:
                _src_cache[fname] = f.read().splitlines()
        except OSError:
            _src_cache[fname] = []
    src = _src_cache[fname]
    return src[line - 1] if 0 < line <= len(src) else ''


def _late_census(ctx, cls, kind, values, init_name):
    # (the forwarding thread also serialises the worker: its event count depends on the initial state, so the census uses the same one;
    #  the first serialisation of a class in a process runs extra one-off analysis code, so the census is repeated until two runs agree)
    key = ('c16late', kind, tuple(values), init_name)
    cache = ctx.data.setdefault('census', {})
    if key in cache:
        return cache[key]
    prev = None
    cand = []
    for _ in range(4):
        cand = _late_census_once(ctx, cls, kind, values, init_name)
        if cand == prev:
            break
        prev = cand
    cache[key] = cand
    return cand


def _late_census_once(ctx, cls, kind, values, init_name):
    name = IC.fresh_name(ctx, kind + '-latecensus')
    target = name + '.front' if kind.endswith('remote') else name
    inject.arm(target, 'census')
    kw = {'name': name, 'init_state': vworkers.mkval(init_name)}
    if kind.endswith('remote'):
        kw['host'] = IC.server(ctx).addr
    persistent = kind.startswith('p_')
    w = bounded(cls, 25, vworkers.state_target, args=None if persistent else [values, 'return'], **kw)
    if persistent:
        w.enqueue(values, 'return')
        w.close()
    bounded(w.wait, 25, 10)
    tr = inject.trace(target)
    inject.cleanup(target)
    if kind.endswith('remote'):
        i0 = next((i for i, e in enumerate(tr) if e[2] == '_fetch_results' and 'self._user_state = recv_msg' in _src_line(e[1], e[3])), None)
        cand = [e[0] for e in tr[i0:i0 + 6]] if i0 is not None else []
    else:
        i0 = next((i for i, e in enumerate(tr) if e[1] == 'process.py' and e[2] == '_run' and 'child_end.put(((True' in _src_line(e[1], e[3])), None)
        cand = [e[0] for e in tr[i0 + 1:] if e[1] == 'process.py' and e[2] == '_run'] if i0 is not None else []
    return cand


def run_late(case, ctx):
    import copy
    out = Out()
    kind = case['kind']
    cls = vworkers.CLASSES[kind]
    persistent = kind.startswith('p_')
    remote = kind.endswith('remote')
    out.label('kind:' + kind, 'late_phase')
    values = case['values']
    init = vworkers.mkval(case['init'])
    final = init
    for v in values:
        final = _apply(final, v)
    cand = _late_census(ctx, cls, kind, values, case['init'])
    if not cand:
        out.excluded = 'no landing point after the hand-over of the final result in the census'
        return out
    n = cand[case['n_raw'] % len(cand)]
    name = IC.fresh_name(ctx, kind)
    target = name + '.front' if remote else name
    inject.arm(target, 'pause', n)
    kw = {'name': name, 'init_state': copy.deepcopy(init)}
    if remote:
        kw['host'] = IC.server(ctx).addr
    site = kind + (':forwarding_thread_held_between_result_and_state' if remote else ':child_held_after_handing_over_its_result')
    w = None
    try:
        try:
            w = bounded(cls, 25, vworkers.state_target, args=None if persistent else [values, 'return'], **kw)
            if persistent:
                w.enqueue(values, 'return')
                w.close()
        except BaseException as e:
            out.excluded = 'constructor failed: ' + type(e).__name__
            return out
        r = inject.wait_reached(target, 5.0)
        if not r:
            if os.environ.get('VERIF_DEBUG'):
                tr2 = inject.trace(target)
                print('not reached: n', n, 'trace len', len(tr2), [e for e in tr2 if e[2] == '_fetch_results'][:12])
            out.excluded = 'landing point not reached'
            return out
        # the landing is addressed by an event count taken from a census run: make sure it is where it is meant to be
        ok_site = False
        for fr in r.get('stack', []):
            if remote and fr[1] == '_fetch_results' and 'self._user_state = recv_msg' in _src_line(fr[0], fr[2]):
                ok_site = True
            if not remote and fr[0] == 'process.py' and fr[1] == '_run':
                put_line = next((i + 1 for i, l in enumerate(_src_cache.get('process.py') or [_src_line('process.py', 1)] and _src_cache['process.py']) if 'child_end.put(((True' in l), None)
                ok_site = put_line is not None and fr[2] > put_line
        if not ok_site:
            out.excluded = 'landing drifted away from the intended point (event count differs from the census)'
            return out
        out.label('late_landing_reached')
        out.nontrivial = True
        time.sleep(0.05)
        log = []
        dead_seen = False
        for what in ['wait'] + list(case['reads_alive']):
            try:
                if what == 'wait':
                    v = bounded(w.wait, 20, case['wait_t'])
                    if v is True:
                        dead_seen = True
                elif what == 'is_alive':
                    v = bounded(w.is_alive, 20)
                    if v is False:
                        dead_seen = True
                else:
                    v = getattr(w, what)
            except Blocked:
                out.viol('call_blocked', site, what)
                break
            except Exception as e:
                v = ('RAISED', type(e).__name__)
            log.append([what, repr(v)[:60]])
            if what == 'user_state':
                if dead_seen:
                    # the worker has been reported dead: the state must be the last value assigned in the child
                    if not _eq(v, final):
                        out.viol('reported_dead_before_final_state_arrived', site, f'wait()/is_alive() reported the worker dead, user_state is {v!r}, last value assigned in the child {final!r}')
                elif not _eq(v, init):
                    out.viol('parent_saw_child_state_while_alive', site, f'worker still alive (wait({case["wait_t"]}) returned False); user_state {v!r} != initial {init!r}')
        inject.release(target)
        try:
            ok = bounded(w.wait, 25, 10)
        except Blocked:
            ok = 'blocked'
        us = w.user_state
        if ok is not True:
            out.viol('worker_did_not_finish_after_release', site, repr(ok))
        elif not _eq(us, final):
            out.viol('user_state_not_synchronised', site + ':late', f'after the end user_state is {us!r}, expected {final!r}')
        out.obs = {'site': site, 'n': n, 'log': log, 'final': repr(us)[:60]}
    finally:
        inject.release(target)
        inject.cleanup(target)
        if w is not None:
            try:
                bounded(w.terminate, 10, timeout=1)
            except BaseException:
                pass
    return out


def run_busy_restart(case, ctx):
    import copy
    out = Out()
    kind = case['kind']
    cls = vworkers.CLASSES[kind]
    out.label('kind:' + kind, 'busy_restart')
    out.nontrivial = True
    state = vworkers.mkval(case['init'])
    kw = {'name': IC.fresh_name(ctx, kind), 'init_state': copy.deepcopy(state)}
    if kind.endswith('remote'):
        kw['host'] = IC.server(ctx).addr
    site = kind + ':restart_while_busy'
    w = None
    try:
        try:
            w = bounded(cls, 25, vworkers.state_target, **kw)
        except BaseException as e:
            out.excluded = 'constructor failed: ' + type(e).__name__
            return out
        log = []
        for r_ in range(case['restarts']):
            final = state
            for v in case['values']:
                final = _apply(final, v)
            w.enqueue(case['values'], 'spin')       # assigns the values, then never returns on its own
            time.sleep(0.4)
            try:
                bounded(w.restart, 40, timeout=case['timeout'])
            except Blocked:
                out.viol('restart_blocked', site, '')
                return out
            except Exception as e:
                out.viol('restart_raised:' + type(e).__name__, site, repr(e)[:200])
                return out
            try:
                res = bounded(w.call, 25, [], 'return')
            except BaseException as e:
                out.viol('call_after_restart_failed:' + type(e).__name__, site, repr(e)[:200])
                return out
            log.append([repr(final)[:40], repr(res)[:60]])
            if not (isinstance(res, tuple) and len(res) == 2 and res[0] == 'seen' and res[1] == repr(final)):
                out.viol('incarnation_started_from_wrong_state', site, f'restart #{r_ + 1} of a busy worker: the new incarnation first saw {res!r}, the old one had assigned {final!r} (graceful terminate lets it report)')
                break
            state = final
        out.obs = {'log': log}
    finally:
        if w is not None:
            try:
                bounded(w.terminate, 10, timeout=1) if not kind.endswith('thread') else bounded(w.terminate, 10, 1, False)
            except BaseException:
                pass
    return out


def run_case(case, ctx):
    if case.get('busy_restart'):
        return run_busy_restart(case, ctx)
    if case.get('late'):
        return run_late(case, ctx)
    out = Out()
    kind = case['kind']
    cls = vworkers.CLASSES[kind]
    persistent = kind.startswith('p_')
    out.label('kind:' + kind)
    chain = case['chain']
    if len(chain) > 1:
        out.label('chain>1')
    state = vworkers.mkval(case['init'])
    w = None
    site = kind
    nontrivial = False
    out.obs = {'steps': []}

    if case['assign_from_parent'] == 'norun':
        try:
            nr = cls(vworkers.state_target, init_state=state, run=False, **({'host': IC.server(ctx).addr} if kind.endswith('remote') else {}))
            try:
                nr.user_state = 1
                out.viol('parent_assignment_accepted', 'not_run:' + kind, 'assigning user_state on a never-run worker did not raise')
            except RuntimeError:
                pass
            except Exception as e:
                out.viol('parent_assignment_wrong_exception:' + type(e).__name__, 'not_run:' + kind, repr(e))
        except Exception as e:
            out.viol('norun_ctor_raised:' + type(e).__name__, kind, repr(e))

    try:
        for i, inc in enumerate(chain):
            name = IC.fresh_name(ctx, kind)
            values = inc['values']
            ending = inc['ending']
            if ending == 'return_lock' and kind not in ('process', 'p_process'):
                ending = 'raise'      # (an unsendable result is only followed up for the process kinds, see DESIGN 6)
            out.label('ending:' + ending)
            c = {'kind': kind, 'scenario': 'state', 'cls': 'S', 'values': values, 'ending': ending}
            mode = 'none'
            n = None
            if ending == 'terminate' or (inc['pause'] and values and not kind.endswith('thread')):
                # census of this scenario: one traced run of the same worker class / values with a plain return
                cen = _census(ctx, cls, kind, values)
                cand = [e[0] for e in cen if e[1] == 'vworkers.py' and e[0] >= 0]
                if ending == 'terminate':
                    pool = cand + [e[0] for e in cen if e[0] > (cand[-1] if cand else 0)][:40] if cand else [e[0] for e in cen]
                    if pool:
                        n = pool[inc['n_raw'] % len(pool)]
                        mode = 'terminate'
                else:
                    assign = [e[0] for e in cen if e[1] == 'vworkers.py' and 'US_ASSIGN' in _vw_line(e[3])]
                    if len(assign) >= 2:
                        n = assign[1 + inc['n_raw'] % (len(assign) - 1)]     # after at least one assignment
                        mode = 'pause'
            if mode != 'none':
                inject.arm(name, mode, n)
            import copy
            kw = {'name': name, 'init_state': copy.deepcopy(state)}      # thread workers share memory: never hand them the model's own object
            if kind.endswith('remote'):
                kw['host'] = IC.server(ctx).addr
            restarted = False
            if w is not None and persistent and case['use_restart']:
                # restart() re-creates the worker under the same name: the new incarnation starts from the synchronised state
                try:
                    if mode != 'none':
                        inject.arm(w.name, mode, n)
                        name = w.name
                    bounded(w.restart, 25, timeout=2)
                    restarted = True
                    out.label('restart')
                except Blocked:
                    out.viol('restart_blocked', kind, '')
                    break
                except Exception as e:
                    out.viol('restart_raised:' + type(e).__name__, kind, repr(e)[:200])
                    break
            else:
                args = None if persistent else [values, 'return' if ending == 'terminate' else ending]
                try:
                    w = bounded(cls, 25, vworkers.state_target, args=args, **kw)
                except Blocked:
                    out.excluded = 'constructor blocked (C20)'
                    return out
                except Exception as e:
                    out.excluded = 'constructor raised ' + type(e).__name__
                    return out
            if persistent:
                try:
                    w.enqueue(values, 'return' if ending == 'terminate' else ending)
                except Exception as e:
                    out.viol('enqueue_raised:' + type(e).__name__, kind, repr(e))
                    break
            step = {'i': i, 'ending': ending, 'mode': mode, 'restarted': restarted}
            # ---- alive phase
            if case['assign_from_parent'] == 'alive' and i == 0:
                try:
                    w.user_state = 99
                    if w.is_alive():
                        out.viol('parent_assignment_accepted', 'alive:' + kind, 'assigning user_state from the parent did not raise')
                except RuntimeError:
                    pass
                except Exception as e:
                    out.viol('parent_assignment_wrong_exception:' + type(e).__name__, 'alive:' + kind, repr(e))
            if mode == 'pause':
                r = inject.wait_reached(name, 3.0)
                if r:
                    out.label('paused_read')
                    nontrivial = True
                    try:
                        seen = w.user_state
                        if not _eq(seen, state):
                            out.viol('parent_saw_child_state_while_alive', kind, f'child paused after >=1 assignment; parent user_state {seen!r} != initial {state!r}')
                    finally:
                        inject.release(name)
            reached = None
            if mode == 'terminate':
                reached = inject.wait_reached(name, 3.0)
                try:
                    tkw = {'remote_timeout': 5} if kind.endswith('remote') else {}
                    bounded(w.terminate, 25, timeout=5, force=False, **tkw)
                except Blocked:
                    out.viol('terminate_blocked', kind, '')
                except Exception as e:
                    step['terminate_exc'] = type(e).__name__
            elif inc.get('nowait') and kind == 'process' and mode == 'none':
                # the child's end is observed through the process table only: no call on the worker touches its bookkeeping
                from core import pid_alive
                t_end = time.monotonic() + 15
                while pid_alive(w.pid) and time.monotonic() < t_end:
                    time.sleep(0.005)
                time.sleep(0.02)
                out.label('death_observed_without_worker_api')
                nowait = True
            else:
                try:
                    if not bounded(w.wait, 25, 10):
                        out.excluded = 'worker did not finish'
                        return out
                except Blocked:
                    out.excluded = 'wait blocked'
                    return out
            delivered = bool(inject.delivered(name, 0.5)) if mode == 'terminate' and reached else False
            if mode != 'none':
                inject.cleanup(name)
            if not (inc.get('nowait') and kind == 'process' and mode == 'none'):
                try:
                    dead = not w.is_alive()
                except Exception:
                    dead = False
                if not dead:
                    out.excluded = 'worker not dead after the ending'
                    return out
            # ---- dead phase: reads in the generated order
            obs = {}
            for what in inc['reads']:
                try:
                    obs[what] = getattr(w, what)
                except Exception as e:
                    obs[what] = ('RAISED', type(e).__name__)
            out.label('first_read:' + inc['reads'][0])
            us = obs['user_state']
            cands = [state]
            for v in values:
                cands.append(_apply(cands[-1], v))
            if 'inplace' in values:
                out.label('inplace_mutation')
                if all(v == 'inplace' for v in values) and isinstance(state, (list, dict)):
                    out.label('same_object_assigned_back')
            if ending in ('return', 'raise', 'return_lock') or not delivered:
                # the child ran to its own end (or the terminate request came too late): every assignment was made ... unless terminate
                # was requested and landed somewhere we do not know
                if ending == 'terminate':
                    ok = any(_eq(us, c_) for c_ in cands)
                else:
                    ok = _eq(us, cands[-1])
            else:
                ok = any(_eq(us, c_) for c_ in cands)
            reported = not (obs.get('has_error') is True and obs.get('error', 1) is None)
            site = f'{kind}:{ending}:first_read={inc["reads"][0]}'
            if inc.get('nowait') and kind == 'process' and mode == 'none':
                site += ':no_wait'
            if not ok and w.error is None and w.has_error and ending == 'terminate':
                # no report reached the parent (has_error True, error None): the property only speaks about endings that let the child report
                out.label('no_report')
            elif not ok:
                out.viol('user_state_not_synchronised', site,
                         f'parent user_state {us!r} after {ending} (delivered={delivered}); expected {"one of " if ending == "terminate" else ""}{cands if ending == "terminate" else cands[-1]!r}')
            if ending == 'return' and not persistent and obs.get('result') != ('seen', repr(state)) and not isinstance(obs.get('result'), tuple):
                pass
            # what did this incarnation see first?
            res = w.result if not persistent else None
            if persistent:
                try:
                    res = bounded(w.next_result, 5)
                except Exception:
                    res = None
            if isinstance(res, tuple) and len(res) == 2 and res[0] == 'seen':
                if res[1] != repr(state):
                    out.viol('incarnation_started_from_wrong_state', f'{kind}:{"restart" if restarted else "recreate"}',
                             f'incarnation {i} first saw {res[1]} but the previous final state was {state!r}')
            if case['assign_from_parent'] == 'dead' and i == 0:
                try:
                    w.user_state = 98
                    out.viol('parent_assignment_accepted', 'dead:' + kind, 'assigning user_state on a dead worker did not raise')
                except RuntimeError:
                    pass
                except Exception as e:
                    out.viol('parent_assignment_wrong_exception:' + type(e).__name__, 'dead:' + kind, repr(e))
            if values and (ending != 'return' or len(chain) > 1):
                nontrivial = True
            step.update({'user_state': repr(us)[:40], 'delivered': delivered, 'seen': res[1] if isinstance(res, tuple) and len(res) == 2 else None})
            out.obs['steps'].append(step)
            state = copy.deepcopy(us if ok else cands[-1])
            if not ok:
                break
    finally:
        if w is not None:
            try:
                bounded(w.terminate, 10, timeout=1)
            except BaseException:
                pass
    out.nontrivial = nontrivial
    return out


_vw_src = None


def _vw_line(line):
    global _vw_src
    if _vw_src is None:
        import inspect
        _vw_src = inspect.getsource(vworkers).splitlines()
    return _vw_src[line - 1] if 0 < line <= len(_vw_src) else ''


def _census(ctx, cls, kind, values):
    key = ('c16', kind, tuple(values))
    cache = ctx.data.setdefault('census', {})
    if key in cache:
        return cache[key]
    name = IC.fresh_name(ctx, kind + '-census')
    inject.arm(name, 'census')
    kw = {'name': name, 'init_state': 0}
    if kind.endswith('remote'):
        kw['host'] = IC.server(ctx).addr
    persistent = kind.startswith('p_')
    w = bounded(cls, 25, vworkers.state_target, args=None if persistent else [values, 'return'], **kw)
    if persistent:
        w.enqueue(values, 'return')
    bounded(w.wait, 25, 10)
    tr = inject.trace(name)
    inject.cleanup(name)
    cache[key] = tr
    return tr


def teardown_shard(ctx):
    IC.stop_server(ctx)


TRIGGERS = {}
