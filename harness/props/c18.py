"""C18 - remote contexts are unique per id, supply their workers' work, and clean up (engine OS, model-based)."""
import socket
import time

from hypothesis import strategies as st

from core import Out, bounded, Blocked, census, wait_gone, kill_pids
import injcases as IC
import vtargets

ID = 'C18'
LEVEL = 'exploration'
RULE = ('case = operation list of up to 8 steps over context ids {0,1,2,3} on the shard\\\'s real server: create(i, target_j, kwargs), create_duplicate(i), delete(i), '
        'delete_unknown(i) (protocol-level request for an id that is not registered), start_worker(i), start_worker_unknown(i), enqueue(worker, x), wait(worker); '
        'checked against a dictionary model id -> (target, kwargs, live workers). Oracle: create on a free id succeeds, on a taken id raises ValueError and leaves '
        'the first intact (workers started afterwards compute the first target); results of context workers equal target_j(x, **kwargs); delete(i) returns True, '
        'ends the context\\\'s workers and frees the id; unknown ids never hurt the server (health probe after every faulty step); after deleting everything no '
        'process started during the case is left. Non-trivial = >=1 worker started in a context or a duplicate/unknown step; distinct = distinct case.')
ASSUMPTIONS = ['a blocked constructor for an unknown context is judged by C20, here it only ends the case', 'processes of the case = tagged processes that did not exist before it']
SHRINK = 'greedy'
SHRINK_RUNS = 10
TIME_BUDGET = {'quick': 170, 'thorough': 1700}
REQUIRED = {'quick': {'op:create_duplicate': 30, 'op:delete': 60, 'op:start_worker': 80, 'op:start_worker_unknown': 20, 'op:delete_unknown': 20, 'recreate_after_delete': 2, 'context_workers_blocked': 10, 'default_call_after_override': 15, 'call_with_fewer_positionals_than_context_defaults': 30, '>=2_live_workers_in_one_context': 60,
                      'worker_result_checked': 60},
            'thorough': {'op:create_duplicate': 300, 'op:delete': 300, 'op:start_worker': 800}}
TARGETS = {'t1': vtargets.ctx_t1, 't2': vtargets.ctx_t2}


def examples(tier):
    return 800 if tier == 'quick' else 8000


def shards(tier):
    return 16


def strategy(tier):
    i = st.sampled_from([1, 1, 1, 2, 0, 0, 3])   # 0: a falsy but perfectly valid context id
    op = st.one_of(
        st.tuples(st.just('create'), i, st.sampled_from(['t1', 't2']), st.sampled_from([None, 5, 9, 'P8'])),
        st.tuples(st.just('create'), i, st.sampled_from(['t1', 't2']), st.sampled_from([None, 5, 9, 'P8'])),
        st.tuples(st.just('create_duplicate'), i, st.sampled_from(['t1', 't2'])),
        st.tuples(st.just('delete'), i), st.tuples(st.just('delete_unknown'), i),
        st.tuples(st.just('start_worker'), i), st.tuples(st.just('start_worker'), i), st.tuples(st.just('start_worker'), i, st.sampled_from([2, 3])),
        st.tuples(st.just('start_worker_unknown'), i),
        st.tuples(st.just('start_worker_unloadable'), i),   # a request the context's helper cannot even rebuild (worker class from a module only the client has)
        st.tuples(st.just('block_workers'), i),      # every live worker of the context gets stuck in a C call: deleting the context then takes seconds
        st.tuples(st.just('delete_with_4_blocked_workers'), i),
        st.tuples(st.just('enqueue'), st.integers(0, 5), st.integers(0, 99)), st.tuples(st.just('enqueue'), st.integers(0, 5), st.integers(0, 99), st.sampled_from([4, 7])),
        st.tuples(st.just('enqueue'), st.integers(0, 5), st.integers(0, 99), st.sampled_from([None, 4, 7])),    # per-call keyword override of the context's default
        st.tuples(st.just('enqueue'), st.integers(0, 5), st.integers(0, 99)), st.tuples(st.just('wait'), st.integers(0, 5)))
    first = st.tuples(st.just('create'), st.just(1), st.sampled_from(['t1', 't2']), st.sampled_from([None, 5, 'P8']))
    return st.fixed_dictionaries({'ops': st.builds(lambda f, rest: [list(f)] + [list(r) for r in rest], first, st.lists(op, min_size=1, max_size=9))})


def _client_only_class():
    """a PersistentRemoteWorker subclass pickled by reference to a module that exists in this process only"""
    import sys
    import types
    from pyworkers.persistent_remote import PersistentRemoteWorker
    mod = sys.modules.get('verif_c18_client_only_module')
    if mod is None:
        mod = types.ModuleType('verif_c18_client_only_module')
        sys.modules[mod.__name__] = mod
        cls = type('ClientOnlyWorker', (PersistentRemoteWorker,), {})
        cls.__module__ = mod.__name__
        cls.__qualname__ = 'ClientOnlyWorker'
        mod.ClientOnlyWorker = cls
    return mod.ClientOnlyWorker


def _raw_delete(addr, ctx_id):
    from pyworkers.remote import send_msg, recv_msg
    s = socket.socket(socket.AF_INET, socket.SOCK_STREAM)
    s.settimeout(10)
    try:
        s.connect(tuple(addr))
        send_msg(s, (ctx_id, False))
        send_msg(s, None)
        return recv_msg(s)
    finally:
        s.close()


def run_case(case, ctx):
    from pyworkers.remote_context import RemoteContext
    from pyworkers.persistent_remote import PersistentRemoteWorker
    out = Out()
    srv = IC.server(ctx)
    before = set(census(ctx.tag))
    model = {}        # id -> {'t':, 'k':, 'ctx': RemoteContext, 'workers': [..]}
    workers = []      # {'w', 'id', 't', 'k', 'alive'}
    log = []
    deleted_once = set()
    broke = False
    try:
        ops = []
        for op in case['ops']:
            if op[0] == 'delete_with_4_blocked_workers':
                ops += [['start_worker', op[1], 4], ['block_workers', op[1]], ['delete', op[1]]]
            else:
                ops.append(op)
        for op in ops:
            what = op[0]
            site = what
            n_log = len(log)
            try:
                if what == 'create' or what == 'create_duplicate':
                    i, t = op[1], op[2]
                    k = op[3] if what == 'create' else None
                    if what == 'create_duplicate' and i not in model:
                        continue
                    kwargs = {'k': k} if k is not None and k != 'P8' else None
                    # 'P8': the context's defaults are positional ([x default, k default]); a call that passes one positional replaces only the first
                    cargs = [100, 8] if k == 'P8' else None
                    if k == 'P8':
                        out.label('context_with_positional_defaults')
                    try:
                        rc = bounded(RemoteContext, 25, i, host=srv.addr, target=TARGETS[t], args=cargs, kwargs=kwargs)
                        created = True
                    except ValueError:
                        created = False
                    if i in model:
                        out.nontrivial = True
                        if created:
                            out.viol('duplicate_context_accepted', what, f'context id {i} registered twice on the same server')
                            model[i] = {'t': t, 'k': k, 'ctx': rc, 'workers': []}
                    else:
                        if not created:
                            out.viol('create_on_free_id_failed', what + (':after_delete' if i in deleted_once else ''), f'creating context {i} raised ValueError although the id is free')
                        else:
                            model[i] = {'t': t, 'k': k, 'ctx': rc, 'workers': []}
                            if i in deleted_once:
                                out.label('recreate_after_delete')
                elif what == 'delete':
                    i = op[1]
                    if i not in model:
                        continue
                    r = bounded(model[i]['ctx'].wait, 40)
                    if r is not True:
                        out.viol('delete_returned_false', what, repr(r))
                    # the workers of the context must be gone at OS level (checked before any call on them: wait() would release them itself)
                    pids = [rec['w'].pid for rec in model[i]['workers'] if rec['alive']]
                    left = wait_gone(pids, 3.0)
                    if left:
                        out.viol('context_worker_process_survived_delete', what + (':>=2_workers' if len(pids) >= 2 else ''),
                                 f'{len(left)} of {len(pids)} worker process(es) of deleted context {i} still running 3 s after delete returned True')
                    for rec in model[i]['workers']:
                        try:
                            dead = bounded(rec['w'].wait, 25, 5)
                        except Blocked:
                            dead = 'blocked'
                        if dead is not True:
                            out.viol('context_worker_survived_delete', what, f'worker of deleted context {i}: wait(5) -> {dead!r}')
                        rec['alive'] = False
                    del model[i]
                    deleted_once.add(i)
                elif what == 'delete_unknown':
                    i = op[1]
                    if i in model:
                        continue
                    out.nontrivial = True
                    r = bounded(_raw_delete, 25, srv.addr, i)
                    log.append(['delete_unknown', i, repr(r)])
                elif what == 'start_worker':
                    i = op[1]
                    if i not in model:
                        continue
                    out.nontrivial = True
                    for _ in range(op[2] if len(op) > 2 else 1):
                        w = bounded(PersistentRemoteWorker, 25, None, context=i, host=srv.addr)
                        rec = {'w': w, 'id': i, 't': model[i]['t'], 'k': model[i]['k'], 'alive': True}
                        model[i]['workers'].append(rec)
                        workers.append(rec)
                    if len([r for r in model[i]['workers'] if r['alive']]) >= 2:
                        out.label('>=2_live_workers_in_one_context')
                elif what == 'start_worker_unknown':
                    i = op[1]
                    if i in model:
                        continue
                    out.nontrivial = True
                    try:
                        w = bounded(PersistentRemoteWorker, 25, None, context=i, host=srv.addr)
                        out.viol('worker_in_unknown_context_created', what, f'constructor returned a worker for unregistered context {i}')
                        workers.append({'w': w, 'id': i, 't': None, 'k': None, 'alive': False})
                    except Blocked:
                        log.append(['start_worker_unknown', 'blocked'])
                        broke = True
                    except BaseException as e:
                        log.append(['start_worker_unknown', type(e).__name__])
                elif what == 'start_worker_unloadable':
                    # a faulty "start worker in context i" request must cost that one request only: the context stays registered, its workers
                    # stay alive and keep executing its target, new workers can still be started in it (round-4 seed C18-m7)
                    i = op[1]
                    if i not in model:
                        continue
                    out.nontrivial = True
                    try:
                        w = bounded(_client_only_class(), 25, None, context=i, host=srv.addr)
                        log.append(['start_worker_unloadable', 'returned'])
                        workers.append({'w': w, 'id': i, 't': None, 'k': None, 'alive': False})
                    except Blocked:
                        out.viol('constructor_blocked_on_unloadable_worker_class', what, '')
                        broke = True
                    except (NameError, AttributeError, ImportError):
                        raise
                    except BaseException as e:
                        log.append(['start_worker_unloadable', type(e).__name__])
                    if not broke:
                        for rec in model[i]['workers']:
                            if rec['alive'] and not rec.get('blocked') and rec['k'] != 'P8':
                                v = bounded(rec['w'].call, 25, 41)
                                exp = TARGETS[rec['t']](41, **({'k': rec['k']} if rec['k'] is not None else {}))
                                if v != exp:
                                    out.viol('context_worker_wrong_result', what, f'after a faulty request in context {i}: call(41) -> {v!r}, expected {exp!r}')
                        w2 = bounded(PersistentRemoteWorker, 25, None, context=i, host=srv.addr)
                        rec = {'w': w2, 'id': i, 't': model[i]['t'], 'k': model[i]['k'], 'alive': True}
                        model[i]['workers'].append(rec)
                        workers.append(rec)
                        out.label('context_usable_after_faulty_request')
                elif what == 'block_workers':
                    i = op[1]
                    if i not in model:
                        continue
                    nb = 0
                    for rec in model[i]['workers']:
                        if rec['alive'] and not rec.get('blocked'):
                            bounded(rec['w'].enqueue, 10, 'SLEEP')
                            rec['blocked'] = True
                            nb += 1
                    if nb:
                        time.sleep(0.2)
                        out.label('context_workers_blocked')
                        if sum(1 for rec in model[i]['workers'] if rec.get('blocked')) >= 3:
                            out.label('>=3_blocked_workers_in_context')
                elif what == 'enqueue':
                    live = [r for r in workers if r['alive'] and not r.get('blocked')]
                    if not live:
                        continue
                    rec = live[op[1] % len(live)]
                    x = op[2]
                    over = op[3] if len(op) > 3 else None
                    if rec['k'] == 'P8':
                        v = bounded(rec['w'].call, 25, x)
                        exp = TARGETS[rec['t']](x, 8)
                        out.label('call_with_fewer_positionals_than_context_defaults')
                    elif over is not None:
                        v = bounded(rec['w'].call, 25, x, k=over)
                        exp = TARGETS[rec['t']](x, k=over)
                        rec['overridden'] = True
                        out.label('call_overrides_context_default')
                        if v == exp:
                            # ... and the very next call without the keyword is served with the context's own default again
                            v = bounded(rec['w'].call, 25, x)
                            exp = TARGETS[rec['t']](x, **({'k': rec['k']} if rec['k'] is not None else {}))
                            out.label('default_call_after_override')
                    else:
                        v = bounded(rec['w'].call, 25, x)
                        exp = TARGETS[rec['t']](x, **({'k': rec['k']} if rec['k'] is not None else {}))
                        if rec.get('overridden'):
                            out.label('default_call_after_override')
                    out.label('worker_result_checked')
                    if v != exp:
                        out.viol('context_worker_wrong_result', 'enqueue', f'worker of context {rec["id"]} ({rec["t"]}, k={rec["k"]}): call({x}) -> {v!r}, expected {exp!r}')
                elif what == 'wait':
                    live = [r for r in workers if r['alive'] and not r.get('blocked')]
                    if not live:
                        continue
                    rec = live[op[1] % len(live)]
                    ok = bounded(rec['w'].wait, 25, 10)
                    rec['alive'] = False
                    if ok is not True or rec['w'].has_error is not False:
                        out.viol('context_worker_did_not_finish', 'wait', f'wait -> {ok!r}, has_error={rec["w"].has_error}, error={rec["w"].error!r}')
            except Blocked:
                out.viol('operation_blocked', site, f'{op} blocked')
                broke = True
            except BaseException as e:
                out.viol('operation_raised:' + type(e).__name__, site, f'{op}: {e!r}'[:250])
            log.append(op)
            out.label('op:' + what)
            if what in ('create_duplicate', 'delete_unknown', 'start_worker_unknown', 'start_worker_unloadable') or broke:
                if not IC.server_healthy(ctx, limit=20):
                    out.viol('server_unhealthy', what, f'server does not serve a fresh worker after {op}')
                    broke = True
            if broke:
                break
        # teardown: delete everything, nothing of this case may be left
        if not broke:
            for rec in workers:
                if rec['alive']:
                    try:
                        bounded(rec['w'].terminate, 15, 2)
                    except BaseException:
                        pass
            for i in list(model):
                try:
                    bounded(model[i]['ctx'].wait, 40)
                except BaseException as e:
                    out.viol('final_delete_failed:' + type(e).__name__, 'teardown', str(e)[:100])
            left = [p for p in census(ctx.tag) if p not in before]
            left = wait_gone(left, 8)
            if left:
                out.viol('process_left_after_deleting_all_contexts', 'teardown', f'{len(left)} process(es) started during the case still alive')
                kill_pids(left)
        out.obs = {'ops': log}
    finally:
        for rec in workers:
            try:
                bounded(rec['w'].terminate, 8, 0.5)
            except BaseException:
                pass
        if broke or out.violations:
            IC.stop_server(ctx)
            kill_pids([p for p in census(ctx.tag) if p not in before])
    return out


def simplify(case):
    ops = case['ops']
    for i in range(len(ops) - 1, -1, -1):
        if len(ops) > 1:
            yield {'ops': ops[:i] + ops[i + 1:]}


def teardown_shard(ctx):
    IC.stop_server(ctx)


TRIGGERS = {}
