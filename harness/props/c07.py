"""C07 - Pool.run yields exactly one result per input under every schedule and death (engine POOLSIM)."""
from hypothesis import strategies as st
import poolcases
from core import Out

ID = 'C07'
LEVEL = 'exploration'
WHICH = 'C07'
RULE = ('case = pool configuration (1-3 simulated workers speaking the real result-pipe protocol over the real utils.Pipe, 0-6 distinct inputs, '
        'extra pending 0-2, <=3 kills with/without end marker, poison inputs, optional refusing enqueue_fn, optional per-worker callable source) + '
        'a tape that decides every scheduling choice (which worker progresses or dies at each point where the real Pool.run yields control, and '
        'the order in which ready result pipes are seen). Small configurations are enumerated exhaustively by stateless DFS over all choice vectors. '
        'Non-trivial = a death or a refusal occurred, or extra>=1 with >=2 workers; distinct = distinct (configuration, executed event trace).')
ASSUMPTIONS = ['SimWorker reproduces the result-pipe protocol of the real persistent workers (validated by the conformance traces counted in '
               'traces_validated_against_impl)', 'every worker eventually answers or dies: past the end of the tape a fair policy processes the oldest input and never kills',
               'pyworkers.pool.time.sleep is replaced by a no-op during a simulated run']
SHRINK = 'greedy'
SHRINK_RUNS = 400
TIME_BUDGET = {'quick': 150, 'thorough': 1500}
FUZZ = {'quick': (2, 3000), 'thorough': (4, 150000)}     # coverage-guided shards: (processes, libFuzzer runs each); pool.py instrumented
REQUIRED = {
    'quick': {'death_with_unread_result': 100, 'death_while_enqueueing': 100, 'all_dead': 100, 'poison_reaches_every_worker': 20,
              'refusing_enqueue_fn': 100, 'extra_pending_multi_worker': 100, 'per_worker_callable_source': 100, 'realpool': 30, 'realpool_sigkill': 8,
              'equal_inputs_and_death': 100, 'transient_enqueue_failure': 100, 'enqueue_to_lingering_dead_worker': 50, 'enqueue_raises_on_lingering_dead_worker': 50},
    'thorough': {'death_with_unread_result': 1000, 'death_while_enqueueing': 1000, 'all_dead': 1000, 'poison_reaches_every_worker': 200,
                 'refusing_enqueue_fn': 1000, 'extra_pending_multi_worker': 1000, 'per_worker_callable_source': 1000},
}
RETRY = (True, True, True, False)   # the termination / no-internal-error clause is not limited to retry=True
RR = (True, True, False)


def examples(tier):
    return 16000 if tier == 'quick' else 480000


def shards(tier):
    return 16


def strategy(tier):
    # one case in eight is a HISTORY of runs on one pool (restarts, kills, additions, runs with a refusing enqueue_fn in between): every run
    # of it is a Pool.run the property speaks about - what an earlier run leaves behind is part of "every schedule" (round-4 seed C07-m8)
    cfg = poolcases.config(retry_choices=RETRY, rr_choices=RR)
    return st.one_of(cfg, cfg, cfg, cfg, cfg, cfg, cfg, poolcases.history_config())


_HIST_SYMPTOMS = ('deadlock', 'livelock', 'missing', 'duplicate', 'foreign_value')


def dfs_configs(tier):
    cfgs = []
    base = {'poison': {}, 'refuse': [], 'retry': True, 'return_results': True, 'source': 'iter'}
    if tier == 'quick':
        grid = [(1, 2, 1, 1), (2, 2, 0, 1), (2, 2, 1, 1), (2, 3, 0, 1), (2, 3, 1, 1), (3, 2, 1, 1), (3, 3, 0, 1)]
    else:
        grid = [(1, 3, 2, 2), (2, 2, 1, 2), (2, 3, 1, 1), (2, 3, 1, 2), (2, 4, 1, 1), (2, 3, 2, 1), (3, 3, 1, 1), (3, 3, 0, 2), (3, 4, 0, 1),
                (2, 4, 2, 1), (3, 3, 2, 1)]
    for (w, n, extra, kills) in grid:
        for km in (False, True):
            cfgs.append(dict(base, workers=w, inputs=list(range(n)), extra=extra, kills=kills, kill_marker=km))
    # one poison pair and one refusing pair in a small configuration
    cfgs.append(dict(base, workers=2, inputs=[0, 1, 2], extra=1, kills=0, kill_marker=False, poison={'*': [1]}))
    cfgs.append(dict(base, workers=2, inputs=[0, 1, 2], extra=0, kills=1, kill_marker=False, poison={'0': [0]}))
    cfgs.append(dict(base, workers=2, inputs=[0, 1], extra=0, kills=0, kill_marker=False, refuse=[[0, 0], [1, 1]]))
    cfgs.append(dict(base, workers=2, inputs=[0, 1, 2], extra=1, kills=1, kill_marker=True, refuse=[[0, 1]]))
    # equal items in the input, a transient enqueue failure, a dead worker still reporting is_alive() (all schedules, one kill)
    cfgs.append(dict(base, workers=2, inputs=[0, 0, 1], extra=1, kills=1, kill_marker=False))
    cfgs.append(dict(base, workers=2, inputs=[1, 0, 0], extra=1, kills=1, kill_marker=True))
    cfgs.append(dict(base, workers=2, inputs=[0, 1], extra=0, kills=1, kill_marker=False, flaky=[[0, 0]]))
    cfgs.append(dict(base, workers=2, inputs=[0, 1, 2], extra=0, kills=1, kill_marker=True, linger=True))
    cfgs.append(dict(base, workers=2, inputs=[0, 1, 2, 3], extra=0, kills=1, kill_marker=False, linger=True, linger_checks=4))
    # termination clause with retry disabled (small configurations)
    for cfg in list(cfgs):
        if len(cfg['inputs']) + cfg['workers'] <= (4 if tier == 'quick' else 5):
            cfgs.append(dict(cfg, retry=False))
    return cfgs


_last = {}
DFS_CAP = {'quick': 6000, 'thorough': 150000}
_exh = {'complete': 0, 'capped': 0}


def exhaustive(tier, shard, nshards):
    # randomized runs on real thread/process/remote workers with SIGKILLs at generated delays (own seeded Hypothesis stream)
    import os
    import hypothesis
    from hypothesis import given
    from core import hyp_settings, shard_seed
    real = []

    @hypothesis.seed(shard_seed(int(os.environ.get('VERIF_SEED_EFFECTIVE', '1')), 'C07real', shard))
    @hyp_settings(4 if tier == 'quick' else 40)
    @given(realpool_strategy())
    def collect(c):
        real.append(c)
    collect()
    for c in real:
        yield c
    cfgs = dfs_configs(tier)
    for ci, cfg in enumerate(cfgs):
        if ci % nshards != shard:
            continue
        vec = []
        n = 0
        while True:
            case = dict(cfg, tape=list(vec), dfs=True)
            _last.clear()
            yield case
            n += 1
            ch = _last.get('choices')
            if ch is None:
                break   # not executed (time budget) -> stop enumerating
            i = len(ch) - 1
            while i >= 0 and ch[i][1] + 1 >= ch[i][0]:
                i -= 1
            if i < 0:
                _exh['complete'] += 1
                break
            vec = [v for _, v in ch[:i]] + [ch[i][1] + 1]
            if n >= DFS_CAP[tier]:
                _exh['capped'] += 1
                break


def realpool_strategy():
    from hypothesis import strategies as st
    return st.fixed_dictionaries({
        'realpool': st.just(True),
        'workers': st.lists(st.sampled_from(['thread', 'process', 'process', 'remote']), min_size=1, max_size=3),
        'inputs': st.lists(st.tuples(st.integers(0, 30), st.sampled_from([False] * 15 + [True])).map(list), min_size=5, max_size=30),
        'extra': st.integers(0, 2),
        'kills': st.lists(st.tuples(st.integers(0, 2), st.integers(0, 400)).map(list), max_size=2),     # (worker index, delay in ms after run() starts)
    })


def run_realpool(case, ctx):
    import os
    import signal
    import threading
    import time
    from core import bounded, Blocked, census, kill_pids
    import injcases as IC
    import vtargets
    from pyworkers.pool import Pool, PoolError
    from pyworkers.worker import WorkerType
    out = Out()
    out.label('realpool')
    before = set(census(ctx.tag))
    srv = IC.server(ctx) if 'remote' in case['workers'] else None
    before = set(census(ctx.tag))
    inputs = [[i, ms, poison] for i, (ms, poison) in enumerate(case['inputs'])]
    pool = Pool(vtargets.pool_item, retry=True, close_timeout=1, name='realpool')
    stop = threading.Event()
    try:
        ws = []
        for k in case['workers']:
            kw = {'host': srv.addr} if k == 'remote' else {}
            ws.append(bounded(pool.add_worker, 30, {'thread': WorkerType.THREAD, 'process': WorkerType.PROCESS, 'remote': WorkerType.REMOTE}[k], **kw))
        kills = [(ws[i % len(ws)], d) for i, d in case['kills'] if not ws[i % len(ws)].is_thread]

        def killer():
            t0 = time.monotonic()
            for w, d in sorted(kills, key=lambda x: x[1]):
                while time.monotonic() - t0 < d / 1000.0 and not stop.is_set():
                    time.sleep(0.002)
                if stop.is_set():
                    return
                try:
                    os.kill(w.pid, signal.SIGKILL)
                except (ProcessLookupError, PermissionError):
                    pass
        kt = threading.Thread(target=killer, daemon=True)
        kt.start()
        res = None
        try:
            r = bounded(pool.run, 90, iter([[x] for x in inputs]) if False else iter(inputs), worker_extra_pending_inputs=case['extra'])
            res = ('return', r)
        except PoolError as e:
            res = ('poolerror', e.partial_results)
        except Blocked:
            res = ('blocked', None)
        except Exception as e:
            res = ('internal', type(e).__name__ + ': ' + str(e)[:150])
        stop.set()
        n_poison = sum(1 for x in inputs if x[2])
        site = 'realpool:' + '+'.join(sorted(set(case['workers']))) + (':kills' if kills else '') + (':poison' if n_poison else '')
        if kills:
            out.label('realpool_sigkill')
        if n_poison:
            out.label('realpool_poison')
        out.nontrivial = bool(kills) or n_poison > 0 or (case['extra'] >= 1 and len(ws) >= 2)
        if res[0] == 'blocked':
            out.viol('deadlock', site, 'Pool.run on real workers did not finish within 90 s')
        elif res[0] == 'internal':
            out.viol('internal_error:' + res[1].split(':')[0], site, res[1])
        elif res[0] == 'return':
            vals = res[1] or []
            exp = sorted(('r', x[0]) for x in inputs)
            if sorted(vals) != exp:
                missing = [e for e in exp if e not in vals]
                dup = sorted(set(v for v in vals if vals.count(v) > 1))
                out.viol('missing' if missing else ('duplicate' if dup else 'foreign_value'), site, f'normal return: missing {missing[:5]} duplicated {dup[:5]} ({len(vals)} results for {len(inputs)} inputs)')
        out.obs = {'end': res[0], 'workers': case['workers'], 'inputs': len(inputs), 'poison': n_poison, 'kills': [d for _, d in kills]}
        out.label('end:' + res[0])
    finally:
        stop.set()
        try:
            bounded(pool.terminate, 30, timeout=1)
        except BaseException:
            pass
        kill_pids([p for p in census(ctx.tag) if p not in before])
    return out


def run_case(case, ctx):
    if case.get('realpool'):
        return run_realpool(case, ctx)
    if 'history' in case:
        out = poolcases.run_history(case)
        out.violations = [v for v in out.violations if v['symptom'] in _HIST_SYMPTOMS or v['symptom'].startswith('internal_error')]
        out.label('history')
        return out
    dfs = bool(case.get('dfs'))
    out, sim = poolcases.run(case, WHICH, dfs=dfs)
    if dfs:
        _last['choices'] = list(sim.sched.choices)
        out.label('dfs_schedule')
    return out


def finish_shard(ctx):
    ctx.stats.extra['dfs_configurations_exhausted'] += _exh['complete']
    ctx.stats.extra['dfs_configurations_capped'] += _exh['capped']
    # conformance of the fake workers with the real ones: shards 0,1,2 take thread, process, remote
    if ctx.shard < 3 and ctx.nshards >= 3:
        import conformance
        from core import HarnessError
        kind = ('thread', 'process', 'remote')[ctx.shard]
        srv = None
        try:
            host = None
            if kind == 'remote':
                from pyworkers.remote_server import spawn_server
                srv = spawn_server(('127.0.0.1', 0))
                host = srv.addr
            for sc in conformance.scripts(10 if ctx.tier == 'quick' else 60):
                if kind == 'thread' and 'kill_after' in sc:
                    continue
                real = conformance.real_trace(kind, sc, host=host)
                sim = conformance.sim_trace(kind, sc)
                if real != sim:
                    raise HarnessError(f'POOLSIM fake worker no longer matches the real {kind} worker on script {sc}: real={real} sim={sim}')
                ctx.stats.extra['traces_validated_against_impl'] += 1
        finally:
            if srv is not None:
                try:
                    srv.terminate(timeout=2)
                except Exception:
                    pass


def _enq_dead_unread(case, outd, v):
    return 'enqueue_to_dead_with_unread_result' in outd['labels']


TRIGGERS = {'enqueue_to_dead_worker_with_unread_result': _enq_dead_unread}
def simplify(case):
    if 'history' in case:
        yield from poolcases.simplify_history(case)
    else:
        yield from poolcases.simplify(case)


def teardown_shard(ctx):
    import injcases as IC
    IC.stop_server(ctx)
