"""C09 - no worker outlives its pool; a pool stays usable across runs and restarts (engines POOLSIM + OS)."""
import os
import signal
import socket
import time

from hypothesis import strategies as st

from core import Out, bounded, Blocked, census, pid_alive, wait_gone, kill_pids
import poolcases
import injcases as IC
import vtargets

ID = 'C09'
LEVEL = 'exploration'
RULE = ('two kinds of cases. (sim) histories of 2-6 steps on one simulated pool (POOLSIM workers behind the real Pool): run(inputs_k) with a tape-driven schedule and '
        '0-2 kills, restart_workers(), kill a worker between runs, add_worker between runs. Oracle: every normal return holds exactly that run\\\'s inputs, PoolError '
        'only with all workers dead, no internal error / deadlock in later runs, a worker whose death the pool handled in an earlier run is never offered work again, '
        'every live worker (restarted ones included) gets work when there is enough, restart_workers keeps the number of workers and leaves them alive. '
        '(os) histories of 1-6 steps on a real pool with thread/process/remote workers: add_worker, attach, run, restart_workers, SIGKILL a worker, a worker stuck in an '
        'exception-swallowing target, add_worker whose registration hook raises, add_worker(REMOTE) to a dead port, a worker whose work fails during a run while a non-daemon thread keeps its process alive, then leave the with-block normally / by exception '
        '/ close() / terminate() / close() inside the with-block interrupted by a KeyboardInterrupt thrown from the first clean-up thread with close_timeout in {0.2, 1} and force in {None, True, False}. Oracle: afterwards every process/remote worker is dead and its '
        'child gone within 2 s (unless force is False and a stuck worker exists); a failed add_worker leaves neither a process nor a registration. '
        'Non-trivial = (sim) >=2 runs or a restart / kill between runs, (os) >=1 process or remote worker in the pool; distinct = distinct case.')
ASSUMPTIONS = ['sim part: same trusted base as C07 (conformance of the simulated workers)', 'os part: processes of a case = tagged processes that did not exist before it']
SHRINK = 'greedy'
SHRINK_RUNS = 60
TIME_BUDGET = {'quick': 170, 'thorough': 1700}
REQUIRED = {'quick': {'kind:sim': 2000, 'kind:os': 100, 'restart_workers': 500, 'kill_between_runs': 500, 'os:exit_exception': 8, 'os:stuck_worker': 8, 'os:failed_add': 8, 'os:sigkill': 5, 'os:dead_worker_process_lingers': 8, 'os:close_interrupted_delivered': 8},
            'thorough': {'kind:sim': 20000, 'kind:os': 400}}


def examples(tier):
    return 8000 if tier == 'quick' else 200000


def shards(tier):
    return 16


_OS_STEPS = ['add:thread', 'add:process', 'add:process', 'add:remote', 'attach:process', 'run', 'run', 'restart', 'sigkill', 'stuck:process', 'stuck:remote', 'add_hook_raises',
             'add_dead_port', 'linger_die:process', 'stuck_restart:process', 'stuck_restart:remote']


def strategy(tier):
    sim = poolcases.history_config().map(lambda c: dict(c, kind='sim'))
    return sim


def os_strategy():
    return st.fixed_dictionaries({
        'kind': st.just('os'),
        'steps': st.lists(st.sampled_from(_OS_STEPS), min_size=1, max_size=6),
        'exit': st.sampled_from(['normal', 'exception', 'close', 'terminate', 'close_interrupted']),
        'close_timeout': st.sampled_from([0.2, 1]),
        'force': st.sampled_from([None, True, False]),
    })


def exhaustive(tier, shard, nshards):
    # the (expensive) real-pool histories are drawn from their own seeded Hypothesis stream, a fixed number per shard
    import hypothesis
    from hypothesis import given
    from core import hyp_settings, shard_seed
    n = 14 if tier == 'quick' else 150
    cases = []

    @hypothesis.seed(shard_seed(int(os.environ.get('VERIF_SEED_EFFECTIVE', '1')), 'C09os', shard))
    @hyp_settings(n)
    @given(os_strategy())
    def collect(c):
        cases.append(c)
    collect()
    for c in cases:
        yield c


def run_case(case, ctx):
    if case.get('kind') == 'os':
        out = run_os(case, ctx)
        out.label('kind:os')
        return out
    out = poolcases.run_history(case)
    out.label('kind:sim')
    return out


class _HookPool:
    pass


def run_os(case, ctx):
    from pyworkers.pool import Pool, PoolError
    from pyworkers.worker import WorkerType
    from pyworkers.persistent_process import PersistentProcessWorker
    out = Out()
    before = set(census(ctx.tag))
    srv = None
    if any('remote' in s_ for s_ in case['steps']):
        srv = IC.server(ctx)
        before = set(census(ctx.tag))
    escape = os.path.join(ctx.scratch, IC.fresh_name(ctx, 'c09') + '.escape')
    raise_hook = {'on': False}

    class HookPool(Pool):
        def handle_new_worker(self, worker):
            if raise_hook['on']:
                raise RuntimeError('registration hook failed')

    pool = HookPool(vtargets.sq, close_timeout=case['close_timeout'], name='c09pool')
    pool.force = case['force']
    pool_thread = {'ident': None, 'fired': False}
    if case['exit'] == 'close_interrupted':
        # Ctrl-C while Pool.close() is waiting for its clean-up threads: the first worker's close() (which runs in such a thread) throws a
        # KeyboardInterrupt at the thread that called Pool.close(); the with-block is then left by that exception (-> terminate())
        from pyworkers.persistent_thread import PersistentThreadWorker
        from pyworkers.utils import foreign_raise

        class InterruptingThreadWorker(PersistentThreadWorker):
            def close(self):
                if pool_thread['ident'] is not None and not pool_thread['fired']:
                    pool_thread['fired'] = True
                    foreign_raise(pool_thread['ident'], KeyboardInterrupt)
                return super().close()
        pool.add_worker(InterruptingThreadWorker)
        out.label('os:close_interrupted')
    stuck = False
    lingering = False
    attached = []
    log = []
    nonthread = 0
    site = 'exit:' + case['exit'] + (':force_false' if case['force'] is False else '')
    try:
        def body():
            nonlocal stuck, nonthread, lingering
            for s_ in case['steps']:
                try:
                    if s_.startswith('add:'):
                        k = s_.split(':')[1]
                        kw = {'host': srv.addr} if k == 'remote' else {}
                        bounded(pool.add_worker, 30, {'thread': WorkerType.THREAD, 'process': WorkerType.PROCESS, 'remote': WorkerType.REMOTE}[k], **kw)
                        nonthread += k != 'thread'
                    elif s_ == 'attach:process':
                        w = bounded(PersistentProcessWorker, 25, vtargets.sq)
                        attached.append(w)
                        pool.attach(w)
                        nonthread += 1
                    elif s_ in ('run', 'restart', 'linger_die:process') and stuck:
                        continue      # a worker that never answers and never dies is outside the premise of run(); restart would wait for it
                    elif s_ == 'restart' and lingering:
                        continue      # restart() of a worker whose process does not exit is C17's business
                    elif s_ == 'run':
                        if pool.workers:
                            try:
                                r = bounded(pool.run, 60, iter(range(6)))
                                log.append(['run', sorted(r) if r is not None else None])
                            except PoolError as e:
                                log.append(['run', 'PoolError'])
                    elif s_ == 'restart':
                        if pool.workers:
                            bounded(pool.restart_workers, 60, timeout=1)
                    elif s_ == 'sigkill':
                        vict = [w for w in pool.workers if not w.is_thread and w.is_alive()]
                        if vict:
                            out.label('os:sigkill')
                            os.kill(vict[0].pid, signal.SIGKILL)
                            wait_gone([vict[0].pid], 3)
                    elif s_.startswith('stuck:') or s_.startswith('stuck_restart:'):
                        k = s_.split(':')[1]
                        kw = {'host': srv.addr} if k == 'remote' else {}
                        w = bounded(pool.add_worker, 30, WorkerType.PROCESS if k == 'process' else WorkerType.REMOTE, target=vtargets.swallow_everything, **kw)
                        w.enqueue(escape)
                        stuck = True
                        nonthread += 1
                        out.label('os:stuck_worker')
                        if s_.startswith('stuck_restart:'):
                            # restart_workers() that cannot stop this worker (graceful only, short timeout): whether it raises or not, the worker
                            # must stay on the pool's books - leaving the pool still has to end it (round-4 seed C09-m7)
                            out.label('os:restart_fails_on_stuck_worker')
                            time.sleep(0.3)       # let the child enter the target, so that it is the target that swallows the exception
                            try:
                                bounded(pool.restart_workers, 60, timeout=0.3, force=False)
                                log.append(['restart_stuck', 'returned'])
                            except RuntimeError as e:
                                log.append(['restart_stuck', 'RuntimeError'])
                    elif s_ == 'linger_die:process':
                        # a worker whose work fails during a run (the pool is told about its death) while its process stays alive
                        os.environ['VERIF_ESCAPE'] = escape
                        w = bounded(pool.add_worker, 30, WorkerType.PROCESS, target=vtargets.linger_then_raise)
                        lingering = True
                        nonthread += 1
                        out.label('os:dead_worker_process_lingers')
                        try:
                            r = bounded(pool.run, 60, iter(range(3)))
                            log.append(['run', sorted(r) if r is not None else None])
                        except PoolError:
                            log.append(['run', 'PoolError'])
                    elif s_ in ('add_hook_raises', 'add_dead_port'):
                        out.label('os:failed_add')
                        n_before = len(pool.workers)
                        procs_before = set(census(ctx.tag))
                        try:
                            if s_ == 'add_hook_raises':
                                raise_hook['on'] = True
                                try:
                                    bounded(pool.add_worker, 30, WorkerType.PROCESS)
                                finally:
                                    raise_hook['on'] = False
                            else:
                                sk = socket.socket(); sk.bind(('127.0.0.1', 0)); dead = sk.getsockname(); sk.close()
                                bounded(pool.add_worker, 30, WorkerType.REMOTE, host=dead)
                            out.viol('failed_add_worker_did_not_raise', s_, '')
                        except Blocked:
                            out.viol('add_worker_blocked', s_, '')
                        except Exception as e:
                            log.append([s_, type(e).__name__])
                        if len(pool.workers) != n_before:
                            out.viol('failed_add_worker_left_registration', s_, f'{n_before} -> {len(pool.workers)} workers')
                        time.sleep(0.1)
                        leaked = wait_gone([p for p in census(ctx.tag) if p not in procs_before], 3)
                        if leaked:
                            out.viol('failed_add_worker_leaked_process', s_, f'{len(leaked)} process(es) left by the failed add_worker')
                            kill_pids(leaked)
                except Blocked:
                    out.viol('pool_operation_blocked', s_, '')
                    return
                except (KeyboardInterrupt, SystemExit):
                    raise
                except Exception as e:
                    # add_worker / run / restart_workers on a healthy pool have no business raising anything but PoolError (handled above)
                    out.viol('pool_operation_raised:' + type(e).__name__, s_.split(':')[0], f'{s_}: {e!r}'[:300])
                    return
                log.append(s_)
        all_workers = []
        t0 = time.monotonic()
        try:
            if case['exit'] in ('normal', 'exception'):
                try:
                    def with_block():
                        with pool:
                            body()
                            all_workers.extend(pool.workers)
                            if case['exit'] == 'exception':
                                out.label('os:exit_exception')
                                raise KeyError('user error in the with-body')
                    bounded(with_block, 120)
                except KeyError:
                    pass
            elif case['exit'] == 'close_interrupted':
                def with_block2():
                    import threading
                    try:
                        with pool:
                            body()
                            all_workers.extend(pool.workers)
                            pool_thread['ident'] = threading.get_ident()
                            pool.close()
                            for _ in range(200):      # give a pending asynchronous exception a bytecode boundary to land on
                                pass
                    except KeyboardInterrupt:
                        out.label('os:close_interrupted_delivered')
                bounded(with_block2, 120)
            else:
                body()
                all_workers.extend(pool.workers)
                bounded(pool.close if case['exit'] == 'close' else pool.terminate, 90)
        except Blocked:
            out.viol('pool_exit_blocked', site, 'leaving the pool did not return within the guard')
        except Exception as e:
            out.viol('pool_exit_raised:' + type(e).__name__, site, f'{e!r}'[:300])
        el = time.monotonic() - t0
        out.nontrivial = nonthread > 0
        exempt = (stuck or lingering) and case['force'] is False
        # every process / remote worker dead, its child gone
        time.sleep(0.1)
        left = [p for p in census(ctx.tag) if p not in before]
        left = wait_gone(left, 2.0)
        if left and not exempt:
            out.viol('worker_process_outlived_pool', site + (':stuck' if stuck else '') + (':lingering' if lingering else ''), f'{len(left)} process(es) of the pool still alive 2 s after {case["exit"]} (stuck worker: {stuck}, dead worker with a lingering process: {lingering}, force: {case["force"]})')
        for w in all_workers:
            if w.is_thread:
                continue
            try:
                if bounded(w.is_alive, 10) and not exempt:
                    out.viol('worker_alive_after_pool_exit', site, f'{type(w).__name__} is_alive() True')
            except BaseException as e:
                out.viol('is_alive_raised_after_pool_exit:' + type(e).__name__, site, str(e)[:100])
        out.obs = {'steps': log[:10], 'exit': case['exit'], 'force': case['force'], 'elapsed': round(el, 2), 'stuck': stuck}
    finally:
        try:
            open(escape, 'w').close()
        except OSError:
            pass
        time.sleep(0.05)
        kill_pids([p for p in census(ctx.tag) if p not in before])
        try:
            os.unlink(escape)
        except OSError:
            pass
    return out


def simplify(case):
    if case.get('kind') == 'os':
        st_ = case['steps']
        for i in range(len(st_) - 1, -1, -1):
            if len(st_) > 1:
                yield dict(case, steps=st_[:i] + st_[i + 1:])
        return
    yield from poolcases.simplify_history(case)


def teardown_shard(ctx):
    IC.stop_server(ctx)


TRIGGERS = {}
