"""C10 - message framing survives any segmentation and detects any truncation (engine WIRE, in-process)."""
import itertools
import pickle
import struct

from hypothesis import strategies as st

from core import Out

ID = 'C10'
LEVEL = 'exploration'
RULE = ('case = (1-4 messages, segmentation plan, optional truncation offset + FIN/RST); the byte stream is produced by the real '
        'send_msg into a scripted socket and read back by the real recv_msg under the plan. Short streams (8 and 16/17 bytes) '
        'enumerate every composition and every truncation offset; longer ones use cuts placed relative to header/body boundaries, '
        'one-byte-per-read windows and seeded random cuts. In 3 of 8 cases the stream is additionally produced through a transport whose send/sendmsg accept '
        'at most q in {1,3,4,5,64,4096} bytes per call (sendall completes, as the real one does): the bytes written must be the same. Non-trivial = the plan splits a 4-byte header or a body, or the '
        'truncation lies strictly inside a message; distinct = distinct (message sizes, absolute cut positions, truncation, end kind).')
ASSUMPTIONS = ['socket.send / sendmsg may accept fewer bytes than given and report the count; sendall writes everything or raises', 'socket.recv(n) returns between 1 and n bytes while data remains, b"" at orderly EOF, raises ConnectionResetError on RST, TimeoutError(ETIMEDOUT) when keep-alive finds the peer host dead, ConnectionAbortedError on a local abort',
               'payload values compare with == after a pickle round trip']
SHRINK = 'hypothesis'
SHRINK_EXAMPLES = 400
TIME_BUDGET = {'quick': 120, 'thorough': 1500}
FUZZ = {'quick': (2, 6000), 'thorough': (4, 300000)}     # coverage-guided shards: (processes, libFuzzer runs each)
REQUIRED = {
    'quick': {'hdr_1_3': 20, 'hdr_2_2': 20, 'hdr_3_1': 20, 'hdr_1_1_1_1': 20, 'body_split': 100, 'trunc_in_header': 20,
              'trunc_in_body': 20, 'trunc_body_first': 5, 'trunc_body_last': 5, 'rst': 20, 'multi_message': 100, 'big_payload': 10, 'partial_writes': 2000, 'length_around_64k_multiple': 90, 'end:timeout': 100, 'end:aborted': 100},
    'thorough': {'hdr_1_3': 200, 'hdr_2_2': 200, 'hdr_3_1': 200, 'hdr_1_1_1_1': 200, 'body_split': 1000, 'trunc_in_header': 200,
                 'trunc_in_body': 200, 'trunc_body_first': 50, 'trunc_body_last': 50, 'rst': 200, 'multi_message': 1000,
                 'big_payload': 100},
}


def examples(tier):
    return 24000 if tier == 'quick' else 1200000


def shards(tier):
    return 8 if tier == 'quick' else 16


class SpinDetected(BaseException):
    pass


class ScriptedSocket:
    """Duck-types what send_msg/recv_msg use.  recv serves `data` cut at `cuts` (absolute positions)."""

    def __init__(self, data=b'', cuts=(), end='eof', spin_limit=2000, write_quota=None):
        self.write_quota = write_quota     # a transport that accepts at most this many bytes per write call (send / sendmsg); sendall completes
        self.data = bytes(data)
        self.cuts = sorted(set(c for c in cuts if 0 < c < len(self.data)))
        self.pos = 0
        self.end = end
        self.sent = bytearray()
        self.after_end = 0
        self.recv_calls = 0
        self.spin_limit = spin_limit
        self._ci = 0

    def sendall(self, b):
        self.sent += b

    def send(self, b, flags=0):
        b = bytes(b)
        n = len(b) if self.write_quota is None else min(len(b), self.write_quota)
        self.sent += b[:n]
        return n

    def sendmsg(self, buffers, ancdata=(), flags=0, address=None):
        return self.send(b''.join(bytes(x) for x in buffers))

    def recv(self, n, flags=0):
        self.recv_calls += 1
        if n <= 0:
            return b''
        if self.pos >= len(self.data):
            self.after_end += 1
            if self.after_end > self.spin_limit:
                raise SpinDetected()
            if self.end == 'rst':
                raise ConnectionResetError(104, 'Connection reset by peer')
            if self.end == 'timeout':
                raise TimeoutError(110, 'Connection timed out')        # what TCP keep-alive reports when the peer host died
            if self.end == 'aborted':
                raise ConnectionAbortedError(103, 'Software caused connection abort')
            return b''
        while self._ci < len(self.cuts) and self.cuts[self._ci] <= self.pos:
            self._ci += 1
        seg_end = self.cuts[self._ci] if self._ci < len(self.cuts) else len(self.data)
        take = min(n, seg_end - self.pos)
        chunk = self.data[self.pos:self.pos + take]
        self.pos += take
        return chunk

    def close(self):
        pass

    def shutdown(self, how):
        pass


_BASE = bytes(range(251))


def make_value(spec):
    if 'bytes' in spec:
        n = spec['bytes']
        return (_BASE * (n // 251 + 1))[:n]
    return _dejson(spec['value'])


def _dejson(v):
    # JSON cannot carry tuples/bytes; a small tagged encoding keeps cases printable
    if isinstance(v, dict) and '__t' in v:
        return tuple(_dejson(x) for x in v['__t'])
    if isinstance(v, dict):
        return {k: _dejson(x) for k, x in v.items()}
    if isinstance(v, list):
        return [_dejson(x) for x in v]
    return v


_json_leaf = st.one_of(st.none(), st.booleans(), st.integers(-2**40, 2**40), st.text(max_size=12),
                       st.floats(allow_nan=False, allow_infinity=False))
_json_val = st.recursive(_json_leaf, lambda c: st.one_of(st.lists(c, max_size=4), st.dictionaries(st.text(alphabet='abkz_ ', max_size=4), c, max_size=3),
                                                          st.builds(lambda l: {'__t': l}, st.lists(c, max_size=3))), max_leaves=8)
_SIZES = [0, 1, 3, 4, 5, 255, 256, 65535, 65536, 300000]
_msg = st.one_of(st.builds(lambda n: {'bytes': n}, st.sampled_from(_SIZES)),
                 st.builds(lambda n: {'bytes': n}, st.integers(0, 600)),
                 st.builds(lambda v: {'value': v}, _json_val))

_cut = st.one_of(
    st.tuples(st.just('b'), st.integers(0, 8), st.integers(-4, 4)),       # boundary index (clamped), delta
    st.tuples(st.just('f'), st.integers(0, 1000), st.just(0)),            # fraction of the stream
    st.tuples(st.just('w'), st.integers(0, 8), st.integers(1, 6)),        # one-byte window around a boundary
    st.tuples(st.just('h'), st.integers(0, 3), st.integers(0, 7)),        # header pattern: message idx, 3-bit mask of cuts inside header
)
_trunc = st.one_of(st.none(), st.none(),
                   st.tuples(st.just('b'), st.integers(0, 8), st.integers(-4, 4)),
                   st.tuples(st.just('f'), st.integers(0, 1000), st.just(0)),
                   st.tuples(st.just('bf'), st.integers(0, 3), st.just(0)),   # first byte of body of message i missing
                   st.tuples(st.just('bl'), st.integers(0, 3), st.just(0)))   # last byte of body of message i missing


def strategy(tier):
    return st.fixed_dictionaries({
        'messages': st.lists(_msg, min_size=1, max_size=4),
        'cuts': st.lists(_cut, max_size=8),
        'all': st.sampled_from([0, 0, 0, 0, 1, 2, 3, 7]),   # k>0: additionally cut every k bytes (small streams only)
        'truncate': _trunc,
        'end': st.sampled_from(['eof', 'eof', 'eof', 'rst', 'rst', 'timeout', 'aborted']),
        'wq': st.sampled_from([None, None, 1, 3, 4, 5, 64, 4096]),    # bytes the sending transport accepts per write call
    })


def exhaustive(tier, shard, nshards):
    # serialised lengths around multiples of 64 KiB (every payload size from 40 below to 8 above the multiple), followed by a second message
    idx = 0
    for k in ((1, 2) if tier == 'quick' else (1, 2, 3, 4, 16)):
        for n in range(65536 * k - 40, 65536 * k + 9):
            idx += 1
            if idx % nshards == shard:
                yield {'messages': [{'bytes': n}, {'value': [1, 2]}], 'cuts': [], 'truncate': None, 'end': 'eof', 'boundary_64k': True}
    for wq in (1, 2, 3, 4, 5, 7, 8, 9, 64):
        if wq % nshards == shard:
            yield {'messages': [{'value': None}, {'bytes': 300}], 'cuts': [], 'truncate': None, 'end': 'eof', 'wq': wq}
    # every composition + every truncation offset of the 8-byte stream; every composition of a 2-message ~17-byte stream
    idx = 0
    for msgs in ([{'value': None}], [{'value': None}, {'value': True}]):
        L = _stream_len(msgs)
        if L > 18:
            continue
        positions = list(range(1, L))
        for mask in range(1 << len(positions)):
            idx += 1
            if idx % nshards != shard:
                continue
            cuts = [p for b, p in enumerate(positions) if mask >> b & 1]
            yield {'messages': msgs, 'cuts_abs': cuts, 'truncate': None, 'end': 'eof'}
        # truncations: every offset x {whole, ones, all compositions for the short one}
        for t in range(0, L):
            for end in ('eof', 'rst'):
                if L <= 8:
                    masks = range(1 << len(positions))
                else:
                    masks = [0, (1 << len(positions)) - 1, 0x5555 & ((1 << len(positions)) - 1)]
                for mask in masks:
                    idx += 1
                    if idx % nshards != shard:
                        continue
                    cuts = [p for b, p in enumerate(positions) if mask >> b & 1]
                    yield {'messages': msgs, 'cuts_abs': cuts, 'truncate_abs': t, 'end': end}


def _stream_len(msgs):
    return sum(4 + len(pickle.dumps(make_value(m))) for m in msgs)


def _resolve(spec, bounds, L, msgs_bounds):
    kind, a, d = spec
    if kind == 'b':
        return [bounds[min(a, len(bounds) - 1)] + d]
    if kind == 'f':
        return [a * L // 1000]
    if kind == 'w':
        c = bounds[min(a, len(bounds) - 1)]
        return list(range(c - d, c + d + 1))
    if kind == 'h':
        h0 = msgs_bounds[min(a, len(msgs_bounds) - 1)][0]
        return [h0 + i + 1 for i in range(3) if d >> i & 1]
    if kind == 'bf':
        return [msgs_bounds[min(a, len(msgs_bounds) - 1)][1]]            # stream ends right after the header
    if kind == 'bl':
        return [msgs_bounds[min(a, len(msgs_bounds) - 1)][2] - 1]        # last body byte missing
    raise ValueError(kind)


def run_case(case, ctx):
    from pyworkers.remote import send_msg, recv_msg, ConnectionClosedError
    out = Out()
    values = [make_value(m) for m in case['messages']]
    tx = ScriptedSocket()
    msgs_bounds = []   # (header start, body start, end)
    for v in values:
        h0 = len(tx.sent)
        send_msg(tx, v)
        msgs_bounds.append((h0, h0 + 4, len(tx.sent)))
    S = bytes(tx.sent)
    if case.get('wq') is not None:
        # metamorphic: how many bytes the transport takes per write call must not change the byte stream the sender produces
        tq = ScriptedSocket(write_quota=case['wq'])
        for v in values:
            send_msg(tq, v)
        out.label('partial_writes')
        if bytes(tq.sent) != S:
            out.nontrivial = True
            out.viol('sender_lost_bytes_on_partial_write', 'send_msg', f'transport accepting {case["wq"]} bytes per write call: {len(tq.sent)} of {len(S)} bytes written')
    L = len(S)
    # sanity of the stream against an independent decoder (does not judge the format, only self-consistency of my bookkeeping)
    bounds = sorted(set([0] + [b for mb in msgs_bounds for b in mb]))

    if 'cuts_abs' in case:
        cuts = list(case['cuts_abs'])
    else:
        cuts = []
        for spec in case['cuts']:
            cuts.extend(_resolve(spec, bounds, L, msgs_bounds))
        k = case.get('all', 0)
        if k and L <= 6000:
            cuts.extend(range(k, L, k))
    cuts = sorted(set(c for c in cuts if 0 < c < L))
    t = None
    if case.get('truncate_abs') is not None:
        t = case['truncate_abs']
    elif case.get('truncate') is not None:
        t = _resolve(case['truncate'], bounds, L, msgs_bounds)[0]
        t = max(0, min(L - 1, t))
    data = S if t is None else S[:t]
    rx = ScriptedSocket(data, cuts, case['end'])

    # ---- classification
    for (h0, b0, e0) in msgs_bounds:
        inside = tuple(c - h0 for c in cuts if h0 < c < b0 and (t is None or c < t))
        if inside:
            out.nontrivial = True
            out.label({(1,): 'hdr_1_3', (2,): 'hdr_2_2', (3,): 'hdr_3_1', (1, 2, 3): 'hdr_1_1_1_1'}.get(inside, 'hdr_split_other'))
        if any(b0 < c < e0 and (t is None or c < t) for c in cuts):
            out.nontrivial = True
            out.label('body_split')
        if t is not None:
            if h0 < t < b0:
                out.label('trunc_in_header'); out.nontrivial = True
            if b0 <= t < e0:
                out.label('trunc_in_body'); out.nontrivial = True
                if t == b0 and e0 > b0:
                    out.label('trunc_body_first')
                if t == e0 - 1:
                    out.label('trunc_body_last')
            if t == h0:
                out.label('trunc_at_boundary')
    if t is not None and case['end'] == 'rst':
        out.label('rst')
    if t is not None and case['end'] in ('timeout', 'aborted'):
        out.label('end:' + case['end'])
    if len(values) > 1:
        out.label('multi_message')
    if case.get('boundary_64k'):
        out.label('length_around_64k_multiple')
        out.nontrivial = True
    if L > 65536:
        out.label('big_payload')
    if t is None:
        out.label('no_truncation')
    out.key = {'sizes': [e - h for h, _, e in msgs_bounds], 'cuts': cuts if len(cuts) < 64 else [len(cuts), cuts[0], cuts[-1], sum(cuts)],
               't': t, 'end': case['end'], 'vals': [m for m in case['messages'] if 'value' in m]}

    # ---- execute + judge
    complete = len(values) if t is None else sum(1 for (_, _, e0) in msgs_bounds if e0 <= t)
    got = []
    for i in range(len(values)):
        try:
            m = recv_msg(rx)
        except ConnectionClosedError:
            if i < complete:
                out.viol('spurious_closed', _site(i, msgs_bounds, cuts, t),
                         f'message {i} fully present (stream {L}B, cuts {cuts[:12]}, trunc {t}) but recv_msg raised ConnectionClosedError')
            got.append('CLOSED')
            break
        except SpinDetected:
            out.viol('spin', _site(i, msgs_bounds, cuts, t),
                     f'recv_msg kept calling recv() after end of stream (> {rx.spin_limit} calls); message {i}, stream {L}B truncated at {t}')
            got.append('SPIN')
            break
        except Exception as e:  # any other exception type
            out.viol('wrong_exception:' + type(e).__name__, _site(i, msgs_bounds, cuts, t), repr(e))
            got.append('EXC')
            break
        if i >= complete:
            out.viol('returned_on_truncation', _site(i, msgs_bounds, cuts, t),
                     f'message {i} is cut at {t} (ends at {msgs_bounds[i][2]}) but recv_msg returned {m!r:.80}')
            break
        if type(m) is not type(values[i]) or m != values[i]:
            out.viol('wrong_message', _site(i, msgs_bounds, cuts, t), f'sent {values[i]!r:.80} got {m!r:.80}')
            break
        got.append('OK')
    else:
        # all messages delivered; one more read must report the end of the stream
        try:
            m = recv_msg(rx)
            out.viol('returned_on_truncation', 'after_last', f'read past the end returned {m!r:.80}')
        except ConnectionClosedError:
            pass
        except SpinDetected:
            out.viol('spin', 'after_last', 'recv_msg spins at end of stream')
        except Exception as e:
            out.viol('wrong_exception:' + type(e).__name__, 'after_last', repr(e))
    # differential cross-check with an independent reference decoder on the same bytes
    ref = _ref_decode(data)
    if ref is not None and [type(x) for x in ref] == [type(v) for v in values[:len(ref)]] and ref != values[:len(ref)]:
        out.viol('wrong_message', 'sender', 'reference decoder disagrees with what was sent')
    out.obs = {'stream_len': L, 'n_cuts': len(cuts), 'truncate': t, 'results': got, 'recv_calls': rx.recv_calls}
    return out


def _site(i, msgs_bounds, cuts, t):
    h0, b0, e0 = msgs_bounds[i]
    if t is not None and h0 <= t < e0:
        return 'truncated_in_header' if t < b0 else 'truncated_in_body'
    if any(h0 < c < b0 for c in cuts):
        return 'header_split'
    if any(b0 < c < e0 for c in cuts):
        return 'body_split'
    return 'unsplit'


def _ref_decode(data):
    out = []
    pos = 0
    try:
        while pos + 4 <= len(data):
            n = struct.unpack('!I', data[pos:pos + 4])[0]
            if pos + 4 + n > len(data):
                break
            out.append(pickle.loads(data[pos + 4:pos + 4 + n]))
            pos += 4 + n
    except Exception:
        return None
    return out


def simplify(case):
    if 'cuts_abs' in case:
        for i in range(len(case['cuts_abs'])):
            c = dict(case); c['cuts_abs'] = case['cuts_abs'][:i] + case['cuts_abs'][i + 1:]
            yield c
        return
    if len(case['messages']) > 1:
        for i in range(len(case['messages'])):
            c = dict(case); c['messages'] = case['messages'][:i] + case['messages'][i + 1:]
            yield c
    for i in range(len(case['cuts'])):
        c = dict(case); c['cuts'] = case['cuts'][:i] + case['cuts'][i + 1:]
        yield c
    if case.get('all'):
        c = dict(case); c['all'] = 0
        yield c
    for i, m in enumerate(case['messages']):
        if m != {'value': None}:
            c = dict(case); c['messages'] = list(case['messages']); c['messages'][i] = {'value': None}
            yield c
