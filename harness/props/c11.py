"""C11 - the remote server survives every client failure (engines WIRE + OS)."""
import os
import socket
import struct
import threading
import time

from hypothesis import strategies as st

from core import Out, bounded, Blocked, HarnessError, pid_alive
import injcases as IC
import vtargets

ID = 'C11'
LEVEL = 'fault_enumeration'
RULE = ('the byte streams a well-behaved client sends on the data connection are recorded from the real client code for five request kinds (worker, persistent '
        'worker, context create, context delete, worker-in-context). case = 1-4 faulty clients, each replaying a recorded stream cut at byte offset k with FIN or '
        'RST, or sending garbage, and, when the whole request was sent, failing the control-channel step (never connects / connects and closes / sends j bytes of '
        'the recorded control stream and closes); optionally a healthy client\\\'s worker is running on the same server meanwhile; the server of every second shard runs with close_on_none=True (as run_server() and the command line do). Oracle after the fault sequence: '
        'the server process is alive, a fresh RemoteWorker(sq, x) returns x*x within the guard, the concurrent healthy worker is still alive and later finishes with '
        'its own result. Non-trivial = some cut lies strictly inside a stream or at an inner message boundary, or a control-step fault; distinct = distinct case.')
ASSUMPTIONS = ['a vanished client is modelled by closing (FIN) or resetting (RST) its sockets; half-open connections that never close are not modelled',
               'the probe guard is 25 s (the server may legitimately spend control_connect_timeout on a client that never connects its control channel)']
SHRINK = 'greedy'
SHRINK_RUNS = 6
TIME_BUDGET = {'quick': 170, 'thorough': 1700}
REQUIRED = {'quick': {'req:worker': 60, 'req:p_worker': 40, 'req:ctx_create': 40, 'req:ctx_delete': 30, 'req:worker_in_ctx': 30, 'cut:inside': 100, 'ctrl_step': 12, 'healthy_concurrent': 20, 'healthy_in_same_context': 60, 'server_close_on_none': 100, 'fresh_worker_in_same_context': 40},
            'thorough': {'req:worker': 600, 'cut:inside': 1000, 'ctrl_step': 120}}
REQS = ['worker', 'p_worker', 'ctx_create', 'ctx_delete', 'worker_in_ctx']
PROBE_GUARD = 25.0


def examples(tier):
    return 260 if tier == 'quick' else 4000


def shards(tier):
    return 16


_fault = st.fixed_dictionaries({
    'req': st.sampled_from(REQS),
    'cut': st.one_of(st.integers(0, 2000), st.sampled_from(['b0-1', 'b0', 'b0+1', 'b1-1', 'b1', 'b1+1', 'end-1', 'end'])),
    'mode': st.sampled_from(['fin', 'rst']),
    'ctrl': st.sampled_from(['none', 'connect_close', 'bytes:1', 'bytes:5', 'bytes:40']),
    'garbage': st.sampled_from([False, False, False, True]),
})


def strategy(tier):
    return st.fixed_dictionaries({'faults': st.lists(_fault, min_size=1, max_size=4), 'healthy': st.sampled_from([False, True, 'in_ctx', 'in_ctx'])})


def exhaustive(tier, shard, nshards):
    if tier != 'thorough':
        # quick: every offset of the two header messages' first 12 bytes for the plain worker request
        idx = 0
        for req in REQS:
            for cut in list(range(0, 14)) + ['b0-1', 'b0', 'b0+1', 'end-1', 'end']:
                idx += 1
                if idx % nshards == shard:
                    yield {'faults': [{'req': req, 'cut': cut, 'mode': 'fin', 'ctrl': 'none', 'garbage': False}], 'healthy': False}
        return
    idx = 0
    for req in REQS:
        for cut in range(0, 1500, 1):
            idx += 1
            if idx % nshards == shard:
                yield {'faults': [{'req': req, 'cut': cut, 'mode': 'fin' if cut % 2 else 'rst', 'ctrl': 'none', 'garbage': False}], 'healthy': False, 'abs': True}


# ---- recording ---------------------------------------------------------------------------------

class _Tee(socket.socket):
    REC = []

    def __init__(self, *a, **kw):
        super().__init__(*a, **kw)
        self._verif_rec = {'sent': bytearray(), 'peer': None}
        _Tee.REC.append(self._verif_rec)

    def connect(self, addr):
        self._verif_rec['peer'] = addr
        return super().connect(addr)

    def sendall(self, data, *a):
        self._verif_rec['sent'] += bytes(data)
        return super().sendall(data, *a)


def record_streams(srv_addr):
    """Run the real client code once per request kind against the real server and keep the bytes it sent."""
    from pyworkers.remote import RemoteWorker
    from pyworkers.persistent_remote import PersistentRemoteWorker
    from pyworkers.remote_context import RemoteContext
    streams = {}
    real = socket.socket
    socket.socket = _Tee
    try:
        def grab(fn):
            _Tee.REC = []
            r = fn()
            recs = list(_Tee.REC)
            data = [bytes(x['sent']) for x in recs if x['peer'] == tuple(srv_addr)]
            ctrl = [bytes(x['sent']) for x in recs if x['peer'] is not None and x['peer'] != tuple(srv_addr)]
            return r, (data[0] if data else b''), (ctrl[0] if ctrl else b'')

        def one():
            w = RemoteWorker(vtargets.sq, args=[3], host=srv_addr)
            w.wait(5)
            return w
        _, d, c = grab(one)
        streams['worker'] = (d, c)

        def pone():
            w = PersistentRemoteWorker(vtargets.sq, host=srv_addr)
            w.wait(5)
            return w
        _, d, c = grab(pone)
        streams['p_worker'] = (d, c)
        ctx, d, c = grab(lambda: RemoteContext(4242, host=srv_addr, target=vtargets.sq))
        streams['ctx_create'] = (d, b'')

        def inctx():
            w = PersistentRemoteWorker(None, context=4242, host=srv_addr)
            w.wait(5)
            return w
        _, d, c = grab(inctx)
        streams['worker_in_ctx'] = (d, c)
        _, d, c = grab(lambda: ctx.close())
        streams['ctx_delete'] = (d, b'')
    finally:
        socket.socket = real
    for k, (d, c) in streams.items():
        if len(d) < 8:
            raise HarnessError(f'could not record the client stream for {k}')
    return streams


def _bounds(stream):
    b = [0]
    pos = 0
    while pos + 4 <= len(stream):
        n = struct.unpack('!I', stream[pos:pos + 4])[0]
        pos += 4 + n
        b.append(min(pos, len(stream)))
    return b


def setup_shard(ctx):
    # every second shard runs its server with close_on_none=True (the default of run_server() and of the command line): a *complete* None
    # request is then the documented way to stop the server; none of the faulty clients ever sends one
    ctx.data['server_close_on_none'] = bool(ctx.shard % 2)
    srv = IC.server(ctx)
    ctx.data['streams'] = bounded(record_streams, 60, srv.addr)


def teardown_shard(ctx):
    IC.stop_server(ctx)


def _resolve_cut(cut, stream, absolute=False):
    L = len(stream)
    if isinstance(cut, int):
        return min(cut, L) if absolute else cut % (L + 1)
    b = _bounds(stream)
    base, _, d = cut.partition('+') if '+' in cut else (cut.partition('-')[0], '', '-' + cut.partition('-')[2] if '-' in cut else '')
    d = int(d) if d else 0
    pos = {'b0': b[1] if len(b) > 1 else L, 'b1': b[2] if len(b) > 2 else L, 'end': L}[base]
    return max(0, min(L, pos + d))


def faulty_client(srv_addr, streams, f, absolute=False):
    data, ctrl = streams[f['req']]
    if f['garbage']:
        data = data[:4] + bytes((b * 31 + 7) % 256 for b in data[4:])
    k = _resolve_cut(f['cut'], data, absolute)
    info = {'req': f['req'], 'cut': k, 'len': len(data), 'inside': 0 < k < len(data)}
    s = socket.socket(socket.AF_INET, socket.SOCK_STREAM)
    s.settimeout(3)
    try:
        s.connect(tuple(srv_addr))
        if k:
            s.sendall(data[:k])
        if k == len(data) and not f['garbage'] and f['req'] in ('worker', 'p_worker', 'worker_in_ctx'):
            # whole request sent: the server now announces its control address; fail the control step
            info['ctrl'] = f['ctrl']
            try:
                from pyworkers.remote import recv_msg
                addr = recv_msg(s)
                if f['ctrl'] != 'none':
                    c = socket.socket(socket.AF_INET, socket.SOCK_STREAM)
                    c.settimeout(3)
                    c.connect(tuple(addr))
                    if f['ctrl'].startswith('bytes:'):
                        j = int(f['ctrl'].split(':')[1])
                        time.sleep(0.05)
                        c.sendall((ctrl or b'\x00\x00\x00\x05abcde')[:j])
                    if f['mode'] == 'rst':
                        c.setsockopt(socket.SOL_SOCKET, socket.SO_LINGER, struct.pack('ii', 1, 0))
                    c.close()
            except Exception as e:
                info['ctrl_error'] = type(e).__name__
        else:
            time.sleep(0.02)
        if f['mode'] == 'rst':
            s.setsockopt(socket.SOL_SOCKET, socket.SO_LINGER, struct.pack('ii', 1, 0))
    except OSError as e:
        info['client_error'] = type(e).__name__
    finally:
        try:
            s.close()
        except OSError:
            pass
    return info


def ensure_ctx(ctx):
    """context 4242 (the one the recorded worker-in-context stream names) exists on the server"""
    from pyworkers.remote_context import RemoteContext
    srv = ctx.data['server']
    try:
        ctx.data['rc4242'] = bounded(RemoteContext, 25, 4242, host=srv.addr, target=vtargets.sq)
    except ValueError:
        pass


def probe(ctx):
    """(alive, round trip ok, detail)"""
    from pyworkers.remote import RemoteWorker
    srv = ctx.data.get('server')
    alive = srv is not None and srv.pid and pid_alive(srv.pid)
    if not alive:
        return False, False, 'server process is gone'
    try:
        w = bounded(RemoteWorker, PROBE_GUARD, vtargets.sq, args=[7], host=srv.addr)
        ok = bounded(w.wait, PROBE_GUARD, 10)
        if ok and w.result == 49:
            return True, True, ''
        return True, False, f'probe worker: wait={ok} result={w.result!r} error={w.error!r}'
    except Blocked:
        return True, False, f'a fresh RemoteWorker did not come up within {PROBE_GUARD}s'
    except BaseException as e:
        return True, False, f'fresh RemoteWorker raised {type(e).__name__}: {e}'


def run_case(case, ctx):
    from pyworkers.remote import RemoteWorker
    out = Out()
    srv = IC.server(ctx)
    if ctx.data.get('streams_for') != id(srv):
        if 'streams' not in ctx.data or ctx.data.get('streams_for') is not None:
            ctx.data['streams'] = bounded(record_streams, 60, srv.addr)
        ctx.data['streams_for'] = id(srv)
    streams = ctx.data['streams']
    out.label('server_close_on_none' if ctx.data.get('server_close_on_none') else 'server_keeps_running_on_none')
    healthy = None
    in_ctx = None
    if case.get('healthy') == 'in_ctx':
        from pyworkers.persistent_remote import PersistentRemoteWorker
        out.label('healthy_in_same_context')
        try:
            ensure_ctx(ctx)
            in_ctx = bounded(PersistentRemoteWorker, PROBE_GUARD, None, context=4242, host=srv.addr)
            if bounded(in_ctx.call, 20, 3) != 9:
                raise RuntimeError('context worker does not compute')
        except BaseException as e:
            out.excluded = 'could not start the healthy in-context worker: ' + type(e).__name__
            return out
    elif case.get('healthy'):
        out.label('healthy_concurrent')
        marker = os.path.join(ctx.scratch, IC.fresh_name(ctx, 'h') + '.m')
        try:
            healthy = bounded(RemoteWorker, PROBE_GUARD, vtargets.coop_loop, args=[2.5], host=srv.addr)
        except BaseException as e:
            out.excluded = 'could not start the healthy concurrent worker: ' + type(e).__name__
            return out
    infos = []
    for f in case['faults']:
        info = faulty_client(srv.addr, streams, f, absolute=bool(case.get('abs')))
        infos.append(info)
        out.label('req:' + f['req'])
        if info.get('inside'):
            out.label('cut:inside')
        if 'ctrl' in info:
            out.label('ctrl_step', 'ctrl:' + info['ctrl'])
        if f['garbage']:
            out.label('garbage')
    out.nontrivial = any(i.get('inside') or 'ctrl' in i for i in infos)
    out.key = {'f': [(i['req'], i['cut'], f['mode'], i.get('ctrl'), f['garbage']) for i, f in zip(infos, case['faults'])], 'h': case.get('healthy')}
    first = infos[0]
    site = first['req'] + ':' + ('ctrl_' + first['ctrl'] if 'ctrl' in first else ('cut_inside' if first.get('inside') else ('cut_0' if first['cut'] == 0 else 'cut_end')))
    if len(infos) > 1:
        site += '+more'
    if in_ctx is not None:
        # a brand-new client of the same context right after the faulty ones (before anything else talks to the server)
        deleted0 = any(i['req'] == 'ctx_delete' and i['cut'] == i['len'] and not f['garbage'] for i, f in zip(infos, case['faults']))
        if not deleted0:
            from pyworkers.persistent_remote import PersistentRemoteWorker
            fresh = None
            try:
                fresh = bounded(PersistentRemoteWorker, PROBE_GUARD, None, context=4242, host=srv.addr)
                v = bounded(fresh.call, 20, 6)
                out.label('fresh_worker_in_same_context')
                if v != 36:
                    out.viol('context_not_serving', site + ':same_context', f'new worker in the context after the faulty clients: call(6) -> {v!r}')
            except Blocked:
                out.viol('context_not_serving', site + ':same_context', 'creating / calling a new worker in the context after the faulty clients blocked')
            except BaseException as e:
                if bounded(srv.is_alive, 10):
                    out.viol('context_not_serving', site + ':same_context', f'new worker in the context after the faulty clients: {type(e).__name__}: {e}'[:200])
            finally:
                if fresh is not None:
                    try:
                        bounded(fresh.terminate, 10, 1)
                    except BaseException:
                        pass
    alive, ok, detail = probe(ctx)
    if not alive:
        out.viol('server_died', site, detail)
    elif not ok:
        out.viol('server_not_serving', site, detail)
    if healthy is not None:
        try:
            if alive and not bounded(healthy.is_alive, 10) and healthy.result != 'finished':
                out.viol('healthy_worker_disturbed', site, f'concurrent healthy worker died: has_error={healthy.has_error} error={healthy.error!r}')
            else:
                done = bounded(healthy.wait, 20, 10)
                if alive and (not done or healthy.result != 'finished'):
                    out.viol('healthy_worker_disturbed', site, f'concurrent healthy worker: wait={done} result={healthy.result!r} error={healthy.error!r}')
        except Blocked:
            out.viol('healthy_worker_blocked', site, 'is_alive()/wait() on the healthy worker blocked')
        except BaseException as e:
            out.viol('healthy_worker_raised:' + type(e).__name__, site, str(e)[:150])
    if in_ctx is not None and alive:
        deleted = any(i['req'] == 'ctx_delete' and i['cut'] == i['len'] and not f['garbage'] for i, f in zip(infos, case['faults']))
        if not deleted:
            try:
                v = bounded(in_ctx.call, 25, 5)
                if v != 25:
                    out.viol('healthy_worker_disturbed', site + ':same_context', f'worker of another client in the same context: call(5) -> {v!r}')
            except Blocked:
                out.viol('healthy_worker_blocked', site + ':same_context', 'call() on the healthy in-context worker blocked')
            except BaseException as e:
                out.viol('healthy_worker_disturbed', site + ':same_context', f'worker of another client in the same context failed: {type(e).__name__}: {e}'[:200])
        try:
            bounded(in_ctx.terminate, 10, 1)
        except BaseException:
            pass
    out.obs = {'faults': infos, 'server_alive': alive, 'probe_ok': ok}
    if not alive or not ok:
        IC.stop_server(ctx)
        ctx.data['streams_for'] = None
    return out


def simplify(case):
    if len(case['faults']) > 1:
        for i in range(len(case['faults'])):
            yield dict(case, faults=[case['faults'][i]])
    if case.get('healthy'):
        yield dict(case, healthy=False)


TRIGGERS = {}
