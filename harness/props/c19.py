"""C19 - active_children() tracks exactly the live workers (engine OS, model-based)."""
import gc
import multiprocessing
import os
import signal
import threading
import time
import weakref

from hypothesis import strategies as st

from core import Out, bounded, Blocked, pid_alive
import injcases as IC
import vtargets

ID = 'C19'
LEVEL = 'exploration'
RULE = ('case = operation list (up to 30 steps; thorough: bursts of up to 300 creations) over {create a worker of one of the six classes that finishes at once / '
        'is held until released / is not run, release one, terminate one, restart a persistent one, call active_children() - spelled Worker.active_children(), through a subclass or through an instance - from the main thread or from 2-3 '
        'threads at once, drop the caller\'s reference to a running process / remote worker, run a block under autoclose_active_children() that creates held workers}. Model = the set of workers created in this process whose '
        'is_alive() is True. Oracle: every active_children() call yields exactly the model set, each worker once; after workers have finished and the harness '
        'dropped them, the registry retains none (weak references die after a further active_children() call and gc); leaving an autoclose block leaves every '
        'registered worker dead (process/remote children gone from the process table). Non-trivial = >=1 worker finished before a check; distinct = distinct case.')
ASSUMPTIONS = ['held workers use a cooperative target, so thread workers can be terminated', 'the per-shard remote server is itself a registered ProcessWorker and part of the model']
SHRINK = 'greedy'
SHRINK_RUNS = 25
TIME_BUDGET = {'quick': 170, 'thorough': 1700}
REQUIRED = {'quick': {'check_after_death': 150, 'concurrent_check': 60, 'autoclose': 40, 'restart': 30, 'retention_checked': 100, 'create_during_active_children': 40, 'check_via_subclass': 60, 'check_via_instance': 10, 'reference_dropped_while_running': 25, 'enumeration_interrupted_in_is_alive': 40, 'child_died_before_identity': 40},
            'thorough': {'check_after_death': 700, 'concurrent_check': 300, 'autoclose': 120}}
KINDS = ['thread', 'process', 'remote', 'p_thread', 'p_process', 'p_remote']


def examples(tier):
    return 330 if tier == 'quick' else 3000


def shards(tier):
    return 16


def strategy(tier):
    kind = st.sampled_from(KINDS + ['thread', 'p_thread', 'thread'])
    op = st.one_of(
        st.tuples(st.just('create'), kind, st.sampled_from(['quick', 'hold', 'hold', 'norun'])),
        st.tuples(st.just('create'), kind, st.sampled_from(['quick', 'hold'])),
        st.tuples(st.just('release'), st.integers(0, 20)), st.tuples(st.just('terminate'), st.integers(0, 20)),
        st.tuples(st.just('restart'), st.integers(0, 20)),
        st.tuples(st.just('check'), st.sampled_from([0, 0, 2, 3])), st.tuples(st.just('check'), st.sampled_from([0, 2])),
        # active_children() is inherited: spelled through a subclass or an instance it has to enumerate the same registry
        st.tuples(st.just('check'), st.sampled_from([0, 0, 2]), st.sampled_from(['thread', 'p_thread', 'process', 'p_process', 'p_remote', 'instance'])),
        # the caller drops its reference to a running process / remote worker (fire and forget): it is still a live worker
        st.tuples(st.just('create_unreferenced'), st.sampled_from(['process', 'process', 'p_process', 'remote', 'p_remote'])),
        st.tuples(st.just('check_during_create')),
        st.tuples(st.just('check_interrupted_in_probe')),
        st.tuples(st.just('create_dying_process')),
        st.tuples(st.just('autoclose'), st.lists(st.sampled_from(['thread', 'process', 'p_thread', 'p_process', 'p_remote']), min_size=1, max_size=3)),
        st.tuples(st.just('burst'), st.sampled_from(['thread', 'p_thread']), st.integers(5, 40 if tier == 'quick' else 300)),
    )
    return st.fixed_dictionaries({'ops': st.lists(op.map(list), min_size=2, max_size=30)})


def _mk(kind, mode, ctx, path):
    cls = IC.KINDS[kind]
    kw = {}
    if kind.endswith('remote'):
        kw['host'] = IC.server(ctx).addr
    persistent = kind.startswith('p_')
    if mode == 'norun':
        return bounded(cls, 25, vtargets.quick_return, args=[1], run=False, **kw)
    if persistent:
        w = bounded(cls, 25, vtargets.hold_until if mode == 'hold' else vtargets.quick_return, **kw)
        if mode == 'hold':
            w.enqueue(path, 1)
        else:
            w.enqueue(1)
            w.close()
        return w
    if mode == 'hold':
        return bounded(cls, 25, vtargets.hold_until, args=[path, 1], **kw)
    return bounded(cls, 25, vtargets.quick_return, args=[1], **kw)


def run_case(case, ctx):
    from pyworkers.worker import Worker, autoclose_active_children
    out = Out()
    workers = []         # dicts: w, kind, path, mode
    weak = []            # weakrefs of workers we dropped
    finished_before_check = False
    log = []

    def live_model():
        ids = set()
        for rec in workers:
            try:
                if rec['w'] is not None and rec['w'].is_alive():
                    ids.add(id(rec['w']))
            except BaseException:
                pass
        srv = ctx.data.get('server')
        if srv is not None:
            try:
                if srv.is_alive():
                    ids.add(id(srv))
            except BaseException:
                pass
        return ids

    def settle(rec):
        # wait until the worker is really finished so that the model is not racing the check
        try:
            bounded(rec['w'].wait, 20, 10)
        except BaseException:
            pass

    orphans = []         # dicts: pid, kind, path - live workers the harness no longer references

    def enumerate_safely(where):
        try:
            return list(Worker.active_children())
        except BaseException as e:
            if type(e).__name__ != 'WorkerTerminatedError':
                out.viol('active_children_raised:' + type(e).__name__, where, repr(e)[:200])
            return []

    def do_check(nthreads, where, via=None):
        nonlocal finished_before_check
        # bring quick workers to a definite state first
        for rec in workers:
            if rec['w'] is not None and rec['mode'] == 'quick' and not rec.get('settled'):
                settle(rec)
                rec['settled'] = True
        results = []

        fn = Worker.active_children
        if via == 'instance':
            inst = next((rec['w'] for rec in workers if rec['w'] is not None), None)
            if inst is not None:
                fn = inst.active_children
                out.label('check_via_instance')
        elif via:
            fn = IC.KINDS[via].active_children
            out.label('check_via_subclass')
        pids_seen = []

        def one():
            try:
                got = [(id(c), getattr(c, 'pid', None)) for c in fn()]
                pids_seen.append({i: p for i, p in got})
                results.append([i for i, _ in got])
            except BaseException as e:
                results.append(e)
        if nthreads:
            out.label('concurrent_check')
            ths = [threading.Thread(target=one) for _ in range(nthreads)]
            for t in ths:
                t.start()
            for t in ths:
                t.join(20)
        else:
            one()
        model = live_model()
        known = {id(rec['w']) for rec in workers if rec['w'] is not None}
        if any(rec['w'] is not None and not rec.get('alive_last', True) for rec in workers) or any(r['w'] is None for r in workers):
            pass
        dead_exist = any(rec['w'] is not None and id(rec['w']) not in model for rec in workers)
        if dead_exist:
            out.label('check_after_death')
            finished_before_check = True
        for r in results:
            if isinstance(r, BaseException):
                out.viol('active_children_raised:' + type(r).__name__, where, repr(r)[:200])
                continue
            if len(r) != len(set(r)):
                out.viol('worker_yielded_twice', where, f'{len(r) - len(set(r))} duplicates')
            got = set(r)
            pidmap = {}
            for m_ in pids_seen:
                pidmap.update(m_)
            orphan_pids = {o['pid'] for o in orphans}
            extra_dead = [i for i in got if i in known and i not in model]
            missing = [i for i in model if i not in got]
            foreign = [i for i in got if i not in known and i not in model and pidmap.get(i) not in orphan_pids]
            for o in orphans:
                if pid_alive(o['pid']) and o['pid'] not in {pidmap.get(i) for i in got}:
                    time.sleep(0.05)
                    if pid_alive(o['pid']) and not os.path.exists(o['path']):
                        out.viol('live_worker_missing', where + ':' + o['kind'] + ':unreferenced_by_caller', f'worker with child pid {o["pid"]} is running, the caller dropped its reference, active_children() does not yield it')
            if extra_dead:
                out.viol('dead_worker_yielded', where, f'{len(extra_dead)} dead worker(s) yielded by active_children() ({len(got)} yielded, {len(model)} alive)')
            if missing:
                kinds = sorted(set(rec['kind'] + (':restarted' if rec.get('restarted') else '') for rec in workers if rec['w'] is not None and id(rec['w']) in missing))
                out.viol('live_worker_missing', where + ':' + ','.join(kinds), f'{len(missing)} live worker(s) not yielded')
            if foreign:
                out.viol('unknown_object_yielded', where, f'{len(foreign)} objects that are neither known workers nor alive')

    try:
        for op in case['ops']:
            what = op[0]
            if what == 'create':
                kind, mode = op[1], op[2]
                path = os.path.join(ctx.scratch, IC.fresh_name(ctx, 'c19') + '.rel')
                try:
                    w = _mk(kind, mode, ctx, path)
                except BaseException as e:
                    log.append(['create_failed', kind, type(e).__name__])
                    continue
                workers.append({'w': w, 'kind': kind, 'path': path, 'mode': mode})
                log.append(['create', kind, mode])
            elif what == 'burst':
                kind, n = op[1], op[2]
                for _ in range(n):
                    w = _mk(kind, 'quick', ctx, None)
                    workers.append({'w': w, 'kind': kind, 'path': None, 'mode': 'quick'})
                log.append(['burst', kind, n])
            elif what in ('release', 'terminate', 'restart'):
                cands = [rec for rec in workers if rec['w'] is not None and (what != 'restart' or rec['kind'].startswith('p_'))]
                if not cands:
                    continue
                rec = cands[op[1] % len(cands)]
                try:
                    if what == 'release':
                        if rec['path']:
                            open(rec['path'], 'w').close()
                        if rec['kind'].startswith('p_'):
                            rec['w'].close()
                        bounded(rec['w'].wait, 20, 10)
                        rec['settled'] = True
                    elif what == 'terminate':
                        bounded(rec['w'].terminate, 20, 2, False) if rec['kind'].endswith('thread') else bounded(rec['w'].terminate, 20, 2)
                        rec['settled'] = True
                    else:
                        if rec['path']:
                            open(rec['path'], 'w').close()
                        bounded(rec['w'].restart, 30, timeout=2)
                        rec['restarted'] = True
                        rec['mode'] = 'idle'
                        rec['settled'] = True
                        out.label('restart')
                except BaseException as e:
                    log.append([what + '_failed', rec['kind'], type(e).__name__])
                log.append([what, rec['kind']])
            elif what == 'check':
                do_check(op[1], 'check' + (':via_' + ('instance' if op[2] == 'instance' else 'subclass') if len(op) > 2 else ''), op[2] if len(op) > 2 else None)
                log.append(['check', op[1]] + op[2:])
            elif what == 'create_unreferenced':
                kind = op[1]
                path = os.path.join(ctx.scratch, IC.fresh_name(ctx, 'c19') + '.rel')
                try:
                    orphans.append({'pid': _mk(kind, 'hold', ctx, path).pid, 'kind': kind, 'path': path})      # the worker object itself is not kept
                except BaseException as e:
                    log.append(['create_failed', kind, type(e).__name__])
                    continue
                gc.collect()
                out.label('reference_dropped_while_running')
                log.append(['create_unreferenced', kind])
            elif what == 'check_during_create':
                # another thread creates a worker exactly while active_children() evaluates is_alive() of a registered worker
                import vworkers
                out.label('create_during_active_children')
                ppath = os.path.join(ctx.scratch, IC.fresh_name(ctx, 'c19') + '.rel')
                probe = bounded(vworkers.ProbeThreadWorker, 25, vtargets.hold_until, args=[ppath, 1])
                workers.append({'w': probe, 'kind': 'thread', 'path': ppath, 'mode': 'hold'})
                checker = threading.get_ident()
                fired = {'n': 0}
                created = {}
                done = threading.Event()
                npath = os.path.join(ctx.scratch, IC.fresh_name(ctx, 'c19') + '.rel')

                def creator():
                    try:
                        created['w'] = IC.KINDS['thread'](vtargets.hold_until, args=[npath, 1])
                    finally:
                        done.set()

                def hook(wk):
                    if threading.get_ident() == checker and fired['n'] == 0:
                        fired['n'] = 1
                        threading.Thread(target=creator, daemon=True).start()
                        done.wait(0.3)      # with a properly locked registry the creator cannot finish before we go on
                vworkers.ProbeThreadWorker.HOOK[0] = hook
                try:
                    enumerate_safely('enumeration')
                finally:
                    vworkers.ProbeThreadWorker.HOOK[0] = None
                done.wait(10)
                if 'w' in created:
                    workers.append({'w': created['w'], 'kind': 'thread', 'path': npath, 'mode': 'hold'})
                do_check(0, 'check_after_concurrent_create')
                log.append(['check_during_create', fired['n']])
            elif what == 'create_dying_process':
                # a process worker whose child dies before it could report its identity: whatever the constructor does (raise, or return a dead
                # worker), the registry must stay usable and must not list it as alive
                import vworkers
                out.label('child_died_before_identity')
                try:
                    dw = vworkers.DyingProcessWorker(vtargets.quick_return, args=[1])     # (in this thread: the one that enumerates afterwards)
                    workers.append({'w': dw, 'kind': 'process', 'path': None, 'mode': 'quick'})
                    log.append(['create_dying_process', 'returned'])
                except Blocked:
                    out.viol('constructor_blocked', 'create_dying_process', '')
                except BaseException as e:
                    log.append(['create_dying_process', type(e).__name__])
                dw = None
                do_check(0, 'check_after_failed_construction')
            elif what == 'check_interrupted_in_probe':
                # an asynchronous exception (a terminate request for the enumerating thread worker) surfaces exactly while active_children()
                # is asking a registered worker whether it is alive: the enumeration may fail, the registry must not lose the live worker
                import vworkers
                from pyworkers.worker import WorkerTerminatedError
                out.label('enumeration_interrupted_in_is_alive')
                ppath = os.path.join(ctx.scratch, IC.fresh_name(ctx, 'c19') + '.rel')
                probe = bounded(vworkers.ProbeThreadWorker, 25, vtargets.hold_until, args=[ppath, 1])
                workers.append({'w': probe, 'kind': 'thread', 'path': ppath, 'mode': 'hold'})
                checker = threading.get_ident()
                fired = {'n': 0}

                def hook(wk):
                    if threading.get_ident() == checker and fired['n'] == 0 and wk is probe:
                        fired['n'] = 1
                        raise WorkerTerminatedError('terminate called')
                vworkers.ProbeThreadWorker.HOOK[0] = hook
                try:
                    enumerate_safely('enumeration')
                except WorkerTerminatedError:
                    pass
                finally:
                    vworkers.ProbeThreadWorker.HOOK[0] = None
                do_check(0, 'check_after_interrupted_enumeration')
                log.append(['check_interrupted_in_probe', fired['n']])
            elif what == 'autoclose':
                out.label('autoclose')
                inner = []
                try:
                    with autoclose_active_children():
                        for kind in op[1]:
                            path = os.path.join(ctx.scratch, IC.fresh_name(ctx, 'c19') + '.rel')
                            try:
                                w = _mk(kind, 'hold', ctx, path)
                            except BaseException:
                                continue
                            rec = {'w': w, 'kind': kind, 'path': path, 'mode': 'hold'}
                            inner.append(rec)
                            workers.append(rec)
                except BaseException as e:
                    out.viol('autoclose_raised:' + type(e).__name__, 'autoclose', repr(e)[:200])
                for rec in workers:
                    if rec['w'] is None:
                        continue
                    try:
                        alive = rec['w'].is_alive()
                    except BaseException:
                        alive = False
                    if alive:
                        time.sleep(0.3)
                        alive = rec['w'].is_alive()
                    if alive:
                        out.viol('alive_after_autoclose', 'autoclose:' + rec['kind'], 'a registered worker is still alive after leaving autoclose_active_children()')
                    elif not rec['kind'].endswith('thread') and rec['mode'] != 'norun':
                        pid = rec['w'].pid
                        if pid and pid != os.getpid() and pid_alive(pid):
                            time.sleep(0.5)
                            if pid_alive(pid):
                                out.viol('child_process_alive_after_autoclose', 'autoclose:' + rec['kind'], f'pid {pid}')
                    rec['settled'] = True
                for o in orphans:
                    if pid_alive(o['pid']):
                        time.sleep(0.5)
                        if pid_alive(o['pid']) and not os.path.exists(o['path']):
                            out.viol('child_process_alive_after_autoclose', 'autoclose:' + o['kind'] + ':unreferenced_by_caller', f'pid {o["pid"]}')
                log.append(['autoclose', op[1]])
        # final check + retention
        do_check(0, 'final_check')
        w = rec = cands = inner = probe = created = hook = creator = None      # the harness' own references must not keep anything alive
        dropped = 0
        for rec in workers:
            if rec['w'] is None:
                continue
            try:
                alive = rec['w'].is_alive()
            except BaseException:
                alive = True
            if not alive and rec['mode'] != 'norun':
                weak.append((weakref.ref(rec['w']), rec['kind']))
                rec['w'] = None
                dropped += 1
        rec = None
        if dropped:
            out.label('retention_checked')
            multiprocessing.active_children()
            enumerate_safely('enumeration')
            gc.collect()
            kept = sorted(set(k for r, k in weak if r() is not None))
            if kept:
                import sys
                for r, k in weak:
                    o = r()
                    if o is not None:
                        refs = [type(x).__name__ + ':' + repr(x)[:80] for x in gc.get_referrers(o) if x is not sys._getframe()][:4]
                        out.obs['referrers'] = refs
                        o = None
                        break
                n = sum(1 for r, k in weak if r() is not None)
                out.viol('dead_workers_retained', 'retention', f'{n} of {len(weak)} finished workers are still referenced after active_children() + gc')
        out.nontrivial = finished_before_check
        out.obs = {'ops': log[:12], 'created': len(workers), 'dropped': dropped}
    finally:
        for o in orphans:
            try:
                open(o['path'], 'w').close()
            except OSError:
                pass
        if orphans:
            time.sleep(0.1)
            for c in enumerate_safely('cleanup'):
                try:
                    if getattr(c, 'pid', None) in {o['pid'] for o in orphans}:
                        bounded(c.terminate, 10, 1)
                except BaseException:
                    pass
            c = None
            for o in orphans:
                if pid_alive(o['pid']) and o['pid'] != os.getpid():
                    try:
                        os.kill(o['pid'], signal.SIGKILL)
                    except OSError:
                        pass
        for rec in workers:
            if rec.get('path'):
                try:
                    open(rec['path'], 'w').close()
                except OSError:
                    pass
        for rec in workers:
            w = rec['w']
            if w is None:
                continue
            try:
                if not rec['kind'].endswith('thread'):
                    pid = w.pid
                    bounded(w.terminate, 10, 1)
                    if pid and pid != os.getpid() and pid_alive(pid):
                        os.kill(pid, signal.SIGKILL)
                else:
                    bounded(w.terminate, 10, 1, False)
            except BaseException:
                pass
        for rec in workers:
            if rec.get('path'):
                try:
                    os.unlink(rec['path'])
                except OSError:
                    pass
    return out


def simplify(case):
    ops = case['ops']
    for i in range(len(ops) - 1, -1, -1):
        if len(ops) > 1:
            yield {'ops': ops[:i] + ops[i + 1:]}
    for i, op in enumerate(ops):
        if op[0] == 'burst' and op[2] > 5:
            yield {'ops': ops[:i] + [[op[0], op[1], 5]] + ops[i + 1:]}


def teardown_shard(ctx):
    IC.stop_server(ctx)


TRIGGERS = {}
