"""C20 - creating a worker returns a usable worker or raises, it never hangs (engines WIRE + INJECT + OS)."""
import os
import socket
import struct
import threading
import time

from hypothesis import strategies as st

from core import Out, bounded, Blocked, census, pid_alive, wait_gone, kill_pids
import injcases as IC
import inject
import vtargets
from props.c10 import ScriptedSocket

ID = 'C20'
LEVEL = 'fault_enumeration'
INJECT = True
RULE = ('case kinds: (faulty_server) a scripted peer plays the server side of the RemoteWorker handshake and cuts the control-address message (data connection) or '
        'the runtime-info message (control connection) at byte offset k with FIN or RST, refuses the control connection, or goes silent and closes later; '
        '(unknown_ctx) a real server is asked for a worker in a context id that does not exist; (child_dies) the child of a process/remote worker kills itself '
        '(SIGKILL/SIGTERM) at the n-th traced line before it has reported its identity; (unreachable) nobody listens on the port; (server_dies) a real server SIGKILLs itself at the n-th traced line of its main thread while it handles the request (from the first line of the server-side __setstate__ of the worker until it is back in accept()). x {one-shot, persistent}. '
        'Oracle: the constructor returns or raises within 15 s; a returned worker has a pid that is not the pid of the parent and answers wait(); after a failure no '
        'process carrying the case tag is left. Non-trivial = fault strictly inside the handshake; distinct = distinct case.')
ASSUMPTIONS = ['15 s separates "finite" from "hung": no timeout inside the handshake code exceeds 5 s', 'the scripted peer closes its sockets at the latest 1.5 s after going silent']
SHRINK = 'none'
TIME_BUDGET = {'quick': 170, 'thorough': 1700}
REQUIRED = {'quick': {'kind:faulty_server': 100, 'kind:child_dies': 25, 'kind:unknown_ctx': 4, 'kind:unsendable_work': 20, 'kind:unloadable_work': 15, 'kind:main_script_misbehaves': 15, 'step:addr_msg': 50, 'step:info_msg': 12, 'server_killed_mid_request': 25},
            'thorough': {'kind:faulty_server': 350, 'kind:child_dies': 130}}
LIMIT = 15.0


def examples(tier):
    return 450 if tier == 'quick' else 3000


def shards(tier):
    return 16


def strategy(tier):
    fs = st.fixed_dictionaries({
        'kind': st.just('faulty_server'), 'worker': st.sampled_from(['remote', 'p_remote']),
        'step': st.sampled_from(['addr_msg', 'addr_msg', 'info_msg', 'info_msg', 'ctrl_refused', 'silent_data', 'silent_ctrl']),
        'cut': st.integers(0, 200), 'mode': st.sampled_from(['fin', 'rst'])})
    cd = st.fixed_dictionaries({
        'kind': st.just('child_dies'), 'worker': st.sampled_from(['process', 'remote', 'p_process', 'p_remote']),
        'n_raw': st.integers(0, 200), 'sig': st.sampled_from(['SIGKILL', 'SIGTERM'])})
    uc = st.fixed_dictionaries({'kind': st.just('unknown_ctx'), 'worker': st.sampled_from(['remote', 'p_remote']), 'ctx': st.integers(1000, 1005)})
    ur = st.fixed_dictionaries({'kind': st.just('unreachable'), 'worker': st.sampled_from(['remote', 'p_remote'])})
    sd = st.fixed_dictionaries({'kind': st.just('server_dies'), 'worker': st.sampled_from(['remote', 'p_remote']), 'n_raw': st.integers(0, 2000)})
    # start-up fails before anything is sent: the work (target / arguments / initial state) cannot be serialised
    us = st.fixed_dictionaries({'kind': st.just('unsendable_work'), 'worker': st.sampled_from(['remote', 'p_remote', 'remote', 'p_remote', 'process', 'p_process']),
                                'what': st.sampled_from(['lock_in_args', 'lock_in_kwargs', 'lambda_target', 'local_function_target', 'lock_in_init_state', 'socket_in_args'])})
    # start-up fails on the server side: the worker object arrives intact but cannot be rebuilt there (with and without a context)
    ul = st.fixed_dictionaries({'kind': st.just('unloadable_work'), 'worker': st.sampled_from(['remote', 'p_remote']), 'in_context': st.booleans(),
                                'what': st.sampled_from(['init_state', 'userid', 'args'])})
    # the script the parent was started from (re-run in the backend child as __mp_main__) misbehaves there: leaves the interpreter, raises, interrupts
    ms = st.fixed_dictionaries({'kind': st.just('main_script_misbehaves'), 'worker': st.sampled_from(['remote', 'p_remote']),
                                'how': st.sampled_from(['sys_exit', 'raise_exception', 'keyboard_interrupt', 'syntax_error', 'missing_file'])})
    return st.one_of(fs, fs, fs, cd, cd, uc, ur, sd, sd, us, ul, ms)


def exhaustive(tier, shard, nshards):
    # every byte offset of the control-address message; quick: FIN only for one-shot
    idx = 0
    for worker in (['remote'] if tier == 'quick' else ['remote', 'p_remote']):
        for mode in (['fin'] if tier == 'quick' else ['fin', 'rst']):
            for cut in range(0, 64):
                idx += 1
                if idx % nshards == shard:
                    yield {'kind': 'faulty_server', 'worker': worker, 'step': 'addr_msg', 'cut': cut, 'mode': mode, 'abs': True}


def _msg_bytes(obj):
    from pyworkers.remote import send_msg
    s = ScriptedSocket()
    send_msg(s, obj)
    return bytes(s.sent)


class FaultyServer:
    """Plays the server side of the handshake according to `case`; closes everything within ~2 s."""

    def __init__(self, case):
        self.case = case
        self.lsock = socket.socket(socket.AF_INET, socket.SOCK_STREAM)
        self.lsock.bind(('127.0.0.1', 0))
        self.lsock.listen(4)
        self.addr = self.lsock.getsockname()
        self.ctrl = socket.socket(socket.AF_INET, socket.SOCK_STREAM)
        self.ctrl.bind(('127.0.0.1', 0))
        self.ctrl.listen(4)
        self.log = []
        self.effective_cut = None
        self.msg_len = None
        self.t = threading.Thread(target=self._run, daemon=True)
        self.t.start()

    @staticmethod
    def _end(sock, mode):
        try:
            if mode == 'rst':
                sock.setsockopt(socket.SOL_SOCKET, socket.SO_LINGER, struct.pack('ii', 1, 0))
            sock.close()
        except OSError:
            pass

    def _run(self):
        case = self.case
        step = case['step']
        mode = case.get('mode', 'fin')
        cli = c2 = None
        try:
            self.lsock.settimeout(10)
            cli, _ = self.lsock.accept()
            cli.settimeout(0.3)
            # swallow the client's two request messages (header + pickled worker)
            got = 0
            t_end = time.monotonic() + 1.0
            while time.monotonic() < t_end:
                try:
                    b = cli.recv(65536)
                    if not b:
                        break
                    got += len(b)
                    if got > 300:
                        t_end = min(t_end, time.monotonic() + 0.1)
                except socket.timeout:
                    if got:
                        break
            self.log.append(f'request bytes {got}')
            if step == 'silent_data':
                time.sleep(1.5)
                self._end(cli, mode)
                return
            if step == 'ctrl_refused':
                dead = socket.socket(socket.AF_INET, socket.SOCK_STREAM)
                dead.bind(('127.0.0.1', 0))
                addr = dead.getsockname()
                dead.close()
                cli.sendall(_msg_bytes(addr))
                time.sleep(1.5)
                self._end(cli, mode)
                return
            m1 = _msg_bytes(self.ctrl.getsockname())
            if step == 'addr_msg':
                self.msg_len = len(m1)
                k = case['cut'] if case.get('abs') else case['cut'] % len(m1)
                k = min(k, len(m1) - 1)
                self.effective_cut = k
                cli.sendall(m1[:k])
                time.sleep(0.05)
                self._end(cli, mode)
                return
            cli.sendall(m1)
            self.ctrl.settimeout(3)
            try:
                c2, _ = self.ctrl.accept()
            except socket.timeout:
                self.log.append('client never connected the control channel')
                self._end(cli, mode)
                return
            if step == 'silent_ctrl':
                time.sleep(1.5)
                self._end(c2, mode)
                self._end(cli, mode)
                return
            m2 = _msg_bytes((socket.gethostname(), 424242, 424242, 1))
            self.msg_len = len(m2)
            k = min(case['cut'] % len(m2), len(m2) - 1)
            self.effective_cut = k
            c2.sendall(m2[:k])
            time.sleep(0.05)
            self._end(c2, mode)
            time.sleep(0.05)
            self._end(cli, mode)
        except Exception as e:
            self.log.append('faulty server error: ' + repr(e))
        finally:
            for s in (cli, c2):
                if s is not None:
                    try:
                        s.close()
                    except OSError:
                        pass

    def close(self):
        self.t.join(5)
        for s in (self.lsock, self.ctrl):
            try:
                s.close()
            except OSError:
                pass


def _cls(worker):
    return IC.KINDS[worker]


def _server_census(ctx, worker):
    """line events of the server's main thread while it serves exactly one worker request"""
    key = ('server_census', worker)
    cache = ctx.data.setdefault('census', {})
    if key in cache:
        return cache[key]
    from pyworkers.remote_server import RemoteServerProcess
    name = IC.fresh_name(ctx, 'srvcensus')
    inject.arm(name, 'census')
    srv = bounded(RemoteServerProcess, 30, ('127.0.0.1', 0), name=name)
    try:
        persistent = worker.startswith('p_')
        w = bounded(_cls(worker), 25, vtargets.sq, args=None if persistent else [3], host=srv.addr)
        bounded(w.wait, 20, 10)
    finally:
        try:
            bounded(srv.terminate, 15, timeout=3)
        except BaseException:
            pass
    tr = inject.trace(name)
    inject.cleanup(name)
    # the window of interest: from the first event of the worker's server-side __setstate__ until the server is back in accept()
    start = next((e[0] for e in tr if e[2] == '__setstate__'), None)
    end = None
    if start is not None:
        seen_setstate_end = False
        for e in tr:
            if e[0] > start and e[1] == 'remote_server.py' and e[2] == 'run' and 'accept' in IC.line_text_any('remote_server', e[3]):
                end = e[0]
                break
    res = (start, end if end is not None else (len(tr) if start is not None else None))
    cache[key] = res
    return res


def run_case(case, ctx):
    out = Out()
    kind = case['kind']
    worker = case['worker']
    out.label('kind:' + kind, 'worker:' + worker)
    persistent = worker.startswith('p_')
    cls = _cls(worker)
    site = kind + ':' + worker
    before = set(census(ctx.tag))
    w = None
    res = {}
    fs = None
    t0 = time.monotonic()
    try:
        if kind == 'faulty_server':
            fs = FaultyServer(case)
            site = f"{kind}:{case['step']}:{case['mode']}"
            out.label('step:' + case['step'])

            def ctor():
                return cls(vtargets.sq, args=None if persistent else [3], host=fs.addr, name=IC.fresh_name(ctx, 'c20'))
        elif kind == 'unknown_ctx':
            srv = IC.server(ctx)
            before = set(census(ctx.tag))

            def ctor():
                return cls(None, context=case['ctx'], host=srv.addr, name=IC.fresh_name(ctx, 'c20'))
        elif kind == 'unsendable_work':
            import threading
            kw = {}
            if worker.endswith('remote'):
                kw['host'] = IC.server(ctx).addr
                before = set(census(ctx.tag))
            what = case['what']
            site = f'{kind}:{worker}:{what}'
            out.label('unsendable:' + what)
            target = vtargets.sq
            a, k = ([3], {})
            if what == 'lock_in_args':
                target, a = vtargets.echo2, [3, threading.Lock()]
            elif what == 'socket_in_args':
                target, a = vtargets.echo2, [3, socket.socket()]
            elif what == 'lock_in_kwargs':
                target, a, k = vtargets.echo2, [3], {'b': threading.Lock()}
            elif what == 'lambda_target':
                target = lambda x: x
            elif what == 'local_function_target':
                def target(x):
                    return x
            elif what == 'lock_in_init_state':
                kw['init_state'] = {'l': threading.Lock()}

            def ctor():
                return cls(target, args=a, kwargs=k, name=IC.fresh_name(ctx, 'c20'), **kw)
        elif kind == 'unloadable_work':
            from pyworkers.remote_context import RemoteContext
            srv = IC.server(ctx)
            before = set(census(ctx.tag))
            what = case['what']
            site = f'{kind}:{worker}:{what}' + (':in_context' if case['in_context'] else '')
            out.label('unloadable:' + what + (':in_context' if case['in_context'] else ''))
            bad = vtargets.NeedsArgs(1, 2)        # pickles fine, cannot be rebuilt by the receiver (constructor needs two arguments)
            kw = {'host': srv.addr}
            if case['in_context']:
                cid = 700 + ctx.shard
                rc = bounded(RemoteContext, 20, cid, host=srv.addr, target=vtargets.ctx_t1)
                res['ctx'] = rc
                kw['context'] = cid
                time.sleep(0.1)
                before = set(census(ctx.tag))      # (the context's helper process is not a child of the construction under test)
            a = [3]
            if what == 'init_state':
                kw['init_state'] = bad
            elif what == 'userid':
                kw['userid'] = bad
            else:
                a = [bad]

            def ctor():
                return cls(None if case['in_context'] else vtargets.echo2, args=a, name=IC.fresh_name(ctx, 'c20'), **kw)
        elif kind == 'main_script_misbehaves':
            srv = IC.server(ctx)
            before = set(census(ctx.tag))
            how = case['how']
            site = f'{kind}:{worker}:{how}'
            out.label('main_script:' + how)
            mp_ = os.path.join(ctx.scratch, IC.fresh_name(ctx, 'c20main') + '.py')
            body = {'sys_exit': "import sys\nif __name__ != '__main__':\n    sys.exit(2)\n",
                    'raise_exception': "if __name__ != '__main__':\n    raise RuntimeError('not meant to be imported')\n",
                    'keyboard_interrupt': "if __name__ != '__main__':\n    raise KeyboardInterrupt()\n",
                    'syntax_error': "def broken(:\n    pass\n", 'missing_file': None}[how]
            if body is not None:
                with open(mp_, 'w') as f:
                    f.write(body)

            def ctor():
                return cls(vtargets.sq, args=None if persistent else [3], host=srv.addr, name=IC.fresh_name(ctx, 'c20'), main_path=mp_)
        elif kind == 'unreachable':
            s = socket.socket(); s.bind(('127.0.0.1', 0)); dead = s.getsockname(); s.close()

            def ctor():
                return cls(vtargets.sq, args=None if persistent else [3], host=dead, name=IC.fresh_name(ctx, 'c20'))
        elif kind == 'server_dies':
            from pyworkers.remote_server import RemoteServerProcess
            start, end = _server_census(ctx, worker)
            if start is None or end is None or end <= start:
                out.excluded = 'no usable census of the server'
                return out
            n = start + case['n_raw'] % (end - start)
            sname = IC.fresh_name(ctx, 'c20srv')
            inject.arm(sname, 'kill', n, 'SIGKILL')
            before = set(census(ctx.tag))
            psrv = bounded(RemoteServerProcess, 30, ('127.0.0.1', 0), name=sname)
            res['n'] = n
            site = f'server_dies:{worker}'

            def ctor():
                return cls(vtargets.sq, args=None if persistent else [3], host=psrv.addr, name=IC.fresh_name(ctx, 'c20'))
        else:  # child_dies
            c = {'kind': worker, 'scenario': 'persist' if persistent else 'quick_return', 'items': [], 'close': True}
            if worker.endswith('remote'):
                IC.server(ctx)
                before = set(census(ctx.tag))
            cen = IC.census(c, ctx)
            if cen['s0'] <= 0:
                out.excluded = 'empty pre-identity census'
                return out
            n = case['n_raw'] % cen['s0']
            name = IC.fresh_name(ctx, 'c20')
            inject.arm(name, 'kill', n, case['sig'])
            site = f"child_dies:{worker}:{case['sig']}"
            res['n'] = n
            kw = {'host': IC.server(ctx).addr} if worker.endswith('remote') else {}

            def ctor():
                return cls(vtargets.item_or_raise if persistent else vtargets.quick_return, args=None if persistent else [7], name=name, **kw)
        try:
            w = bounded(ctor, LIMIT)
            res['ctor'] = 'returned'
        except Blocked:
            res['ctor'] = 'blocked'
        except BaseException as e:
            res['ctor'] = 'raised:' + type(e).__name__
            res['exc'] = str(e)[:120]
        res['elapsed'] = round(time.monotonic() - t0, 2)
        if kind == 'child_dies':
            res['reached'] = bool(inject.wait_reached(name, 0.2))
            inject.cleanup(name)
        if kind == 'server_dies':
            r = inject.wait_reached(sname, 0.3)
            res['reached'] = bool(r)
            res['server_site'] = f"{r['file']}:{r['func']}:{r['line']}" if r else None
            inject.cleanup(sname)
            if r:
                out.label('server_killed_mid_request')
        if fs is not None:
            res['cut'] = fs.effective_cut
            res['msg_len'] = fs.msg_len
        out.nontrivial = kind in ('child_dies', 'unknown_ctx', 'server_dies', 'unsendable_work', 'unloadable_work', 'main_script_misbehaves') or (kind == 'faulty_server' and (case['step'] not in ('addr_msg', 'info_msg') or (fs.effective_cut or 0) > 0))
        out.key = dict(case, eff=res.get('cut'), n=res.get('n'))
        if res['ctor'] == 'blocked':
            out.viol('constructor_hangs', site, f'constructor did not return or raise within {LIMIT}s ({res})')
        elif res['ctor'] == 'returned':
            # usable: pid describes a child that is not us, wait works
            try:
                pid = w.pid
                if pid == os.getpid() and kind == 'child_dies':
                    out.viol('returned_worker_without_child_identity', site, f'constructor returned a worker whose pid is the own pid of the parent {pid} (child died before reporting)')
                ok = bounded(w.wait, 12, 5)
                res['wait'] = ok
            except Blocked:
                out.viol('returned_worker_wait_blocks', site, 'wait(5) on the returned worker blocked')
            except BaseException as e:
                out.viol('returned_worker_wait_raised:' + type(e).__name__, site, str(e)[:150])
        # no child process left behind after a failed construction
        if res['ctor'] != 'returned':
            time.sleep(0.2)
            left = [p for p in census(ctx.tag) if p not in before]
            if left:
                left = wait_gone(left, 5)
            if left:
                out.viol('child_left_behind', site, f'{len(left)} process(es) started for the failed construction still alive after 5 s')
                kill_pids(left)
        out.obs = res
    finally:
        if w is not None:
            try:
                bounded(w.terminate, 10, timeout=1)
            except BaseException:
                pass
        if fs is not None:
            fs.close()
        if res.get('ctx') is not None:
            try:
                bounded(res['ctx'].close, 20)
            except BaseException:
                pass
            res.pop('ctx', None)
        if kind == 'server_dies':
            try:
                if psrv.pid and pid_alive(psrv.pid):
                    os.kill(psrv.pid, 9)
            except Exception:
                pass
            kill_pids([p for p in census(ctx.tag) if p not in before])
        if kind in ('unknown_ctx', 'child_dies', 'unsendable_work', 'unloadable_work', 'main_script_misbehaves') and worker.endswith('remote') and not IC.server_healthy(ctx):
            # a wedged or dead server is C11's business; here it only needs replacing
            out.label('server_replaced')
            IC.stop_server(ctx)
            stray = [p for p in census(ctx.tag) if p not in before]
            kill_pids(stray)
    return out


def teardown_shard(ctx):
    IC.stop_server(ctx)


TRIGGERS = {}
