"""C05 - persistent workers process each enqueue exactly once, in order, with merged args (engine OS, model-based)."""
import copy
import queue
import time

from hypothesis import strategies as st

from core import Out, bounded, Blocked
import injcases as IC
import vtargets

ID = 'C05'
LEVEL = 'exploration'
RULE = ('case = (persistent worker kind, default args as list or tuple of length 0-3 holding scalars / lists / dicts, default kwargs over {a,b,c}, target '
        '{echo-and-mutate: returns a deep snapshot of its arguments and then mutates every mutable one; fixed None/False/0/[]/1 MiB result}, operation list of up '
        'to 20 steps from {enqueue(extra args of length 0..len+2, extra kwargs), next_result, call(x), close, wait, enqueue_after_close, read_past_end}); operations '
        'whose precondition does not hold in the model are skipped. Oracle = 15-line reference model: k-th value = target(defaults with the enqueued positionals '
        'replacing the leading ones, kwargs overridden) on pristine deep copies; after wait() the remaining results then queue.Empty once and forever; '
        'result == accepted enqueues == delivered results; enqueue after close()/death raises WorkerClosedError; call(x) returns the model value. '
        'Non-trivial = >=2 enqueues with an interleaved read, or tuple defaults, or extra longer than defaults; distinct = distinct case.')
ASSUMPTIONS = ['extra positional arguments longer than the defaults extend the argument list (slice assignment semantics of the documented merge rule)']
SHRINK = 'greedy'
SHRINK_RUNS = 40
TIME_BUDGET = {'quick': 170, 'thorough': 1700}
REQUIRED = {'quick': {'tuple_defaults': 60, 'mutation_visible': 60, 'falsy_result': 60, 'extra_longer_than_defaults': 40, 'interleaved': 200, 'wait_then_drain': 100,
                      'enqueue_after_close': 40, 'call': 40, 'nested_mutable_default': 100, 'gated_schedule': 10, 'gated_init_schedule': 10, 'enqueue_after_own_death': 40},
            'thorough': {'tuple_defaults': 600, 'mutation_visible': 600, 'falsy_result': 400, 'interleaved': 1000}}

_scalar = st.one_of(st.integers(0, 9), st.sampled_from(['s', None, 0.5]))
_flat = st.one_of(_scalar, st.lists(_scalar, max_size=2), st.dictionaries(st.sampled_from(['x', 'y']), _scalar, max_size=2))
_arg = st.one_of(_flat, _flat, st.lists(_flat, max_size=2), st.dictionaries(st.sampled_from(['x', 'y']), _flat, max_size=2))
_kw = st.dictionaries(st.sampled_from(['a', 'b', 'c']), _arg, max_size=3)


def examples(tier):
    return 2400 if tier == 'quick' else 16000


def shards(tier):
    return 16


def strategy(tier):
    enq = st.tuples(st.just('enqueue'), st.lists(_arg, max_size=5), _kw)
    enq_s = st.tuples(st.just('enqueue'), st.lists(_arg, max_size=2), st.just({}))
    nxt = st.tuples(st.just('next'))
    live = st.one_of(enq, enq_s, enq_s, nxt, nxt, st.tuples(st.just('call'), _arg))
    end = st.one_of(st.tuples(st.just('close')), st.tuples(st.just('wait')), st.tuples(st.just('wait')), st.tuples(st.just('enqueue_after_close')),
                    st.tuples(st.just('read_past_end')), nxt, enq_s, st.tuples(st.just('die_then_enqueue')))
    ops = st.builds(lambda a, b: [list(x) for x in a] + [list(x) for x in b], st.lists(live, min_size=1, max_size=14), st.lists(end, max_size=5))
    return st.fixed_dictionaries({
        'kind': st.sampled_from(IC.PERSISTENT),
        'args': st.lists(_arg, max_size=3), 'tuple': st.booleans(), 'args_none': st.sampled_from([False, False, False, True]),
        'kwargs': _kw,
        'target': st.sampled_from(['echo', 'echo', 'echo', 'ret:none', 'ret:false', 'ret:zero', 'ret:empty', 'ret:big']),
        'ops': ops,
    })


def exhaustive(tier, shard, nshards):
    # the worker delivers its last result and dies exactly before / after the k-th interaction of the parent with the results endpoint
    idx = 0
    for k in range(0, 4):
        for when in ('pre', 'post'):
            for reads in (1, 2):
                idx += 1
                if idx % nshards == shard:
                    yield {'gated': True, 'k': k, 'when': when, 'reads': reads}
    # the child thread is held before its _init_child() while the parent already uses the worker
    for seq in (['close', 'enqueue'], ['enqueue', 'close', 'enqueue'], ['enqueue', 'enqueue'], ['close', 'close', 'enqueue']):
        for release_at in range(0, len(seq) + 1):
            for busy in (True, False):
                idx += 1
                if idx % nshards == shard:
                    yield {'gated_init': True, 'seq': seq, 'release_at': release_at, 'busy': busy}


class _GatedEndpoint:
    def __init__(self, q, hook):
        self._q = q
        self._hook = hook
        self.calls = 0

    def _around(self, fn, *a, **kw):
        i = self.calls
        self.calls += 1
        self._hook(i, 'pre')
        try:
            return fn(*a, **kw)
        finally:
            self._hook(i, 'post')

    def get(self, block=True, timeout=None):
        return self._around(self._q.get, block, timeout)

    def get_nowait(self):
        return self._around(self._q.get_nowait)

    def put(self, item):
        return self._q.put(item)

    def close(self):
        pass


class _GatedPipe:
    def __init__(self, hook):
        self._q = queue.Queue()
        self.parent_end = _GatedEndpoint(self._q, hook)
        self.child_end = self._q
        self._q.close = lambda: None


def run_gated(case, ctx, out):
    import os
    import threading
    from pyworkers.persistent_thread import PersistentThreadWorker
    gate = os.path.join(ctx.scratch, IC.fresh_name(ctx, 'c05') + '.gate')
    box = {}
    fired = {'done': False}

    def hook(i, when):
        if fired['done'] or i != case['k'] or when != case['when']:
            return
        fired['done'] = True
        open(gate, 'w').close()                 # the worker answers now ...
        w = box.get('w')
        t_end = time.time() + 5
        while w is not None and w._child.is_alive() and time.time() < t_end:      # ... and is gone before the parent goes on
            time.sleep(0.002)
    out.label('gated_schedule')
    out.nontrivial = True
    site = f'p_thread:gated:{case["when"]}#{case["k"]}'
    pipe = _GatedPipe(hook)
    w = PersistentThreadWorker(vtargets.gated_echo, results_pipe=pipe, args=[0, gate])
    box['w'] = w
    opener = threading.Timer(1.0, lambda: open(gate, 'w').close())     # the schedule point may never be reached: the worker answers anyway
    opener.start()
    try:
        w.enqueue(5)
        w.close()
        got = []
        try:
            for _ in range(case['reads']):
                try:
                    got.append(bounded(w.next_result, 20))
                except queue.Empty:
                    got.append('EMPTY')
        except Blocked:
            out.viol('next_result_blocked', site, f'got {got} so far')
            return out
        if got[0] != ('r', 5):
            out.viol('result_missing', site, f'one item enqueued and answered, next_result() sequence: {got!r}')
        elif case['reads'] == 2 and got[1] != 'EMPTY':
            out.viol('value_past_end', site, repr(got))
        ok = bounded(w.wait, 20, 5)
        rest = list(w.results_iter()) if ok else None
        if got[0] == ('r', 5) and rest:
            out.viol('duplicate_result', site, repr(rest))
        out.obs = {'got': [repr(g) for g in got], 'endpoint_calls': pipe.parent_end.calls, 'fired': fired['done']}
    finally:
        opener.cancel()
        try:
            open(gate, 'w').close()
            bounded(w.terminate, 10, 1, False)
            os.unlink(gate)
        except BaseException:
            pass
    return out


def run_gated_init(case, ctx, out):
    import threading
    from pyworkers.persistent_thread import PersistentThreadWorker
    from pyworkers.persistent import WorkerClosedError
    gate = threading.Event()

    class HeldInit(PersistentThreadWorker):
        def _init_child(self):
            gate.wait(10)            # the child thread is preempted right before it initialises its side
            super()._init_child()
    hold = threading.Event()

    def tgt(a, b=None):
        # an accepted job keeps the worker busy (hence alive) until the whole sequence has been issued, so that only the
        # "closed" state - not the worker's death - can be what rejects a late enqueue
        hold.wait(10)
        return (a, b)
    out.label('gated_init_schedule')
    out.nontrivial = True
    site = 'p_thread:child_held_before_init_child'
    w = HeldInit(tgt if case.get('busy', True) else vtargets.echo2, args=['D0', 'D1'])
    accepted = 0
    closed = False
    try:
        for i, op in enumerate(case['seq'] + ['end']):
            if i == case['release_at']:
                gate.set()
                time.sleep(0.05)
            if op == 'close':
                w.close()
                closed = True
            elif op == 'enqueue':
                try:
                    w.enqueue(f'x{i}')
                    if closed:
                        out.viol('enqueue_after_close_accepted', site, f'sequence {case["seq"]}, child released at step {case["release_at"]}: enqueue after close() did not raise')
                    accepted += 1
                except WorkerClosedError:
                    if not closed:
                        out.viol('enqueue_raised:WorkerClosedError', site, 'enqueue on an open live worker raised WorkerClosedError')
        gate.set()
        hold.set()
        ok = bounded(w.wait, 20, 10)
        got = list(w.results_iter()) if ok else None
        if ok is not True or w.result != accepted or got is None or len(got) != accepted:
            out.viol('counter_mismatch', site, f'accepted {accepted} enqueues, wait={ok}, result={w.result!r}, delivered={got!r}')
        out.obs = {'seq': case['seq'], 'release_at': case['release_at'], 'accepted': accepted}
    finally:
        gate.set()
        hold.set()
        try:
            bounded(w.terminate, 10, 1, False)
        except BaseException:
            pass
    return out


def model_value(case, extra_args, extra_kwargs):
    d_args = [] if case['args_none'] else copy.deepcopy(case['args'])
    kw = copy.deepcopy(case['kwargs'])
    merged = list(d_args)
    merged[0:len(extra_args)] = copy.deepcopy(extra_args)
    kw.update(copy.deepcopy(extra_kwargs))
    if case['target'] == 'echo':
        return (tuple(merged), kw)
    spec = case['target'].split(':')[1]
    return vtargets.ret_spec(spec)


def run_case(case, ctx):
    from pyworkers.persistent import WorkerClosedError
    out = Out()
    if case.get('gated'):
        return run_gated(case, ctx, out)
    if case.get('gated_init'):
        return run_gated_init(case, ctx, out)
    kind = case['kind']
    cls = IC.KINDS[kind]
    out.label('kind:' + kind)
    if case['target'] == 'echo':
        target, d_args = vtargets.echo_and_mutate_deep, list(case['args'])
    else:
        target, d_args = vtargets.ret_spec, [case['target'].split(':')[1]] + list(case['args'])
    if case['args_none']:
        d_args = [] if case['target'] == 'echo' else d_args[:1]
    ctor_args = (tuple(d_args) if case['tuple'] else list(d_args)) if d_args or not case['args_none'] else None
    if case['tuple'] and d_args:
        out.label('tuple_defaults')
    kw = {'args': ctor_args, 'kwargs': copy.deepcopy(case['kwargs']) or None}
    if kind.endswith('remote'):
        kw['host'] = IC.server(ctx).addr
    site = kind
    try:
        w = bounded(cls, 25, target, **kw)
    except BaseException as e:
        out.excluded = 'constructor failed: ' + type(e).__name__
        return out
    pending = []      # model: results not yet read
    accepted = 0
    delivered = 0
    closed = False
    waited = False
    enq_since_read = 0
    steps = []
    offset = 0 if case['target'] == 'echo' else 1       # ret_spec takes the spec as first positional default
    any_mutable_default = any(isinstance(a, (list, dict)) for a in list(case['args']) + list(case['kwargs'].values()))
    if any(isinstance(a, (list, dict)) and any(isinstance(b, (list, dict)) for b in (a if isinstance(a, list) else a.values()))
           for a in list(case['args']) + list(case['kwargs'].values())):
        out.label('nested_mutable_default')

    def mv(ea, ek):
        if case['target'] == 'echo':
            return model_value(case, ea, ek)
        # enqueued positionals replace the leading defaults, the first of which is the spec itself
        merged = list(d_args)
        merged[0:len(ea)] = ea
        return vtargets.ret_spec(*merged[:1]) if merged else None

    try:
        for op in case['ops']:
            what = op[0]
            if what == 'enqueue':
                if closed:
                    continue
                ea, ek = op[1], op[2]
                if case['target'] != 'echo' and ea:
                    continue     # would replace the spec; keep the fixed-result target fixed
                try:
                    bounded(w.enqueue, 10, *copy.deepcopy(ea), **copy.deepcopy(ek))
                except BaseException as e:
                    out.viol('enqueue_raised:' + type(e).__name__, site + (':tuple_defaults' if case['tuple'] else ''), f'enqueue({ea}, {ek}) on an open live worker: {e!r}'[:300])
                    break
                accepted += 1
                enq_since_read += 1
                if delivered > 0:
                    out.label('interleaved')      # an enqueue after at least one result has been read
                pending.append(mv(ea, ek))
                if len(ea) > len(d_args) - offset:
                    out.label('extra_longer_than_defaults')
                if accepted >= 2 and any_mutable_default and case['target'] == 'echo':
                    out.label('mutation_visible')
                steps.append('enqueue')
            elif what == 'next':
                if not pending:
                    continue
                try:
                    v = bounded(w.next_result, 20)
                except Blocked:
                    out.viol('next_result_blocked', site, f'{len(pending)} results outstanding')
                    break
                except queue.Empty:
                    out.viol('result_missing', site, f'next_result raised queue.Empty with {len(pending)} results outstanding')
                    break
                except BaseException as e:
                    out.viol('next_result_raised:' + type(e).__name__, site, repr(e)[:200])
                    break
                exp = pending.pop(0)
                delivered += 1
                if accepted - delivered > 0:
                    out.label('read_with_more_outstanding')
                enq_since_read = 0
                if not _same(v, exp):
                    out.viol('wrong_value', site + (':mutable_defaults' if any_mutable_default else ''), f'result #{delivered}: expected {exp!r:.150} got {v!r:.150}')
                    break
                if not exp and case['target'] != 'echo':
                    out.label('falsy_result')
                steps.append('next')
            elif what == 'call':
                if pending or closed or case['target'] != 'echo':
                    continue
                try:
                    v = bounded(w.call, 20, copy.deepcopy(op[1]))
                except BaseException as e:
                    out.viol('call_raised:' + type(e).__name__, site, repr(e)[:200])
                    break
                accepted += 1
                delivered += 1
                out.label('call')
                exp = mv([op[1]], {})
                if not _same(v, exp):
                    out.viol('wrong_value', site + ':call', f'call({op[1]!r}) expected {exp!r:.150} got {v!r:.150}')
                    break
                steps.append('call')
            elif what == 'close':
                try:
                    bounded(w.close, 10)
                except BaseException as e:
                    out.viol('close_raised:' + type(e).__name__, site, repr(e)[:200])
                    break
                closed = True
                steps.append('close')
            elif what == 'wait':
                if case['target'] == 'ret:big' and pending:
                    continue     # documented: wait() can deadlock while big results are unread (full result queue)
                try:
                    ok = bounded(w.wait, 40)
                except Blocked:
                    out.viol('wait_blocked', site + (':big' if case['target'] == 'ret:big' else ''), f'wait() still blocked after 40 s with {len(pending)} unread results')
                    break
                except BaseException as e:
                    out.viol('wait_raised:' + type(e).__name__, site, repr(e)[:200])
                    break
                closed = True
                waited = True
                if ok is not True:
                    out.viol('wait_false', site, repr(ok))
                    break
                steps.append('wait')
                out.label('wait_then_drain')
                # drain: exactly the remaining results, then Empty, forever
                got = []
                try:
                    def drain():
                        for v in w.results_iter():
                            got.append(v)
                            if len(got) > len(pending) + 3:
                                break
                    bounded(drain, 20)
                except Blocked:
                    out.viol('results_iter_blocked_after_wait', site, '')
                    break
                except BaseException as e:
                    out.viol('results_iter_raised:' + type(e).__name__, site, repr(e)[:200])
                    break
                if len(got) != len(pending) or not all(_same(a, b) for a, b in zip(got, pending)):
                    out.viol('wrong_stream_after_wait', site, f'expected {len(pending)} remaining results {pending!r:.150}, got {len(got)}: {got!r:.150}')
                    break
                delivered += len(got)
                pending.clear()
                res = w.result
                if res != accepted or delivered != accepted:
                    out.viol('counter_mismatch', site, f'worker.result={res!r}, accepted enqueues={accepted}, delivered results={delivered}')
                if w.has_error is not False:
                    out.viol('error_after_normal_end', site, f'has_error={w.has_error} error={w.error!r}')
            elif what == 'enqueue_after_close':
                if not closed:
                    continue
                out.label('enqueue_after_close')
                try:
                    bounded(w.enqueue, 10, 1)
                    out.viol('enqueue_after_close_accepted', site + (':waited' if waited else ':closed'), 'enqueue after close() did not raise WorkerClosedError')
                except WorkerClosedError:
                    pass
                except BaseException as e:
                    out.viol('enqueue_after_close_wrong_exception:' + type(e).__name__, site, repr(e)[:200])
            elif what == 'die_then_enqueue':
                # the worker dies on its own (the target raises for this input); its end is observed through the OS / the thread object only -
                # no call on the worker refreshes its bookkeeping - and then one more enqueue is tried
                if closed or case['target'] != 'echo':
                    continue
                try:
                    bounded(w.enqueue, 10, 'POISON')
                except BaseException as e:
                    out.viol('enqueue_raised:' + type(e).__name__, site, f'enqueue on an open live worker: {e!r}'[:300])
                    break
                from core import pid_alive
                t_end = time.monotonic() + 15
                th = getattr(w, '_child', None)
                while time.monotonic() < t_end:
                    if kind.endswith('thread'):
                        gone = th is not None and not th.is_alive()
                    elif kind.endswith('process'):
                        gone = not pid_alive(w.pid)
                    else:
                        gone = not pid_alive(w.pid) and th is not None and not th.is_alive()
                    if gone:
                        break
                    time.sleep(0.005)
                else:
                    out.excluded = 'worker did not die after the poison input'
                    return out
                time.sleep(0.02)
                out.label('enqueue_after_own_death')
                out.nontrivial = True
                try:
                    bounded(w.enqueue, 10, 1)
                    out.viol('enqueue_after_death_accepted', site, 'the worker died on its own (target raised); the next enqueue did not raise WorkerClosedError')
                except WorkerClosedError:
                    pass
                except Blocked:
                    out.viol('enqueue_after_death_blocked', site, '')
                except BaseException as e:
                    out.viol('enqueue_after_death_wrong_exception:' + type(e).__name__, site, repr(e)[:200])
                steps.append('die_then_enqueue')
                out.obs = {'steps': steps, 'accepted': accepted, 'delivered': delivered}
                return out
            elif what == 'read_past_end':
                if not waited:
                    continue
                for _ in range(2):
                    try:
                        v = bounded(w.next_result, 10)
                        out.viol('value_past_end', site, repr(v)[:100])
                    except queue.Empty:
                        pass
                    except Blocked:
                        out.viol('read_past_end_blocked', site, 'next_result() after the end of a finished worker blocked')
                        break
                    except BaseException as e:
                        out.viol('read_past_end_raised:' + type(e).__name__, site, repr(e)[:100])
                steps.append('read_past_end')
        out.nontrivial = 'interleaved' in out.labels or 'tuple_defaults' in out.labels or 'extra_longer_than_defaults' in out.labels
        out.obs = {'steps': steps, 'accepted': accepted, 'delivered': delivered}
    finally:
        try:
            bounded(w.terminate, 10, timeout=1) if not kind.endswith('thread') else bounded(w.terminate, 10, 1, False)
        except BaseException:
            pass
    return out


def _same(a, b):
    try:
        return type(a) is type(b) and a == b
    except Exception:
        return False


def simplify(case):
    if case.get('gated') or case.get('gated_init'):
        return
    ops = case['ops']
    for i in range(len(ops) - 1, -1, -1):
        yield dict(case, ops=ops[:i] + ops[i + 1:])
    if case['args']:
        yield dict(case, args=case['args'][:-1])
    if case['kwargs']:
        yield dict(case, kwargs={})


def teardown_shard(ctx):
    IC.stop_server(ctx)


TRIGGERS = {}
