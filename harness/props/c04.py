"""C04 - wait/terminate are bounded, truthful, idempotent, even on unresponsive children (engine OS)."""
import os
import signal
import time

from hypothesis import strategies as st

from core import Out, bounded, Blocked, pid_alive, wait_gone
import injcases as IC
import vtargets

ID = 'C04'
LEVEL = 'exploration'
RULE = ('case = (worker class, target behaviour {cooperative loop, swallows every exception, blocked in sleep, interpreter lock held by a C call, SIGSTOPped, result delivered but child process lingering, whole remote host vanished (control connection reset / closed, data connection silent), '
        'already finished, not run}, history of 1-4 calls from {wait(t), terminate(t, force), is_alive(), close()} with t in {0, 0.2, 1}). Thread kinds get only '
        'the first two behaviours and force=False. Oracle per call: elapsed <= 3*(timeouts passed, remote_timeout included) + 10 s; True => is_alive() False and '
        'the child pid is gone; on a dead / finished / not-run worker every call returns True in < 1 s; for process and remote kinds a returned '
        'terminate(force=True) is True with the pid gone for all behaviours; False must coincide with the child pid being alive around the call; the call must '
        'not signal the calling process. Non-trivial = a call on a live uncooperative child or >= 2 calls after death; distinct = distinct case.')
ASSUMPTIONS = ['the bound 3*timeouts + 10 s separates bounded from blocked under 16-way load', 'none of the behaviours blocks SIGTERM',
               'the harness installs a SIGTERM handler in the shard so that a self-directed SIGTERM becomes an observation instead of killing the check']
SHRINK = 'none'
TIME_BUDGET = {'quick': 170, 'thorough': 1700}
REQUIRED = {'quick': {'beh:swallow': 20, 'beh:sleep': 15, 'beh:gil': 15, 'beh:stop': 15, 'beh:coop': 20, 'beh:finished': 15, 'beh:norun': 10, 'beh:linger': 15, 'beh:host_vanished': 15, 'beh:stop_mid_send': 15, 'stopped_child_continued': 40, 'force_true_on_uncooperative': 30,
                      'calls_after_death>=2': 40},
            'thorough': {'beh:swallow': 200, 'beh:sleep': 150, 'beh:gil': 80, 'beh:stop': 80, 'force_true_on_uncooperative': 300}}
_T = [0, 0.2, 1]
_SELF_SIGTERM = {'n': 0}


def examples(tier):
    return 1300 if tier == 'quick' else 8000


def shards(tier):
    return 16


def _ops(thread):
    force = st.just(False) if thread else st.booleans()
    op = st.one_of(st.tuples(st.just('wait'), st.sampled_from(_T)), st.tuples(st.just('terminate'), st.sampled_from(_T), force),
                   st.tuples(st.just('terminate'), st.sampled_from(_T), force), st.tuples(st.just('is_alive')), st.tuples(st.just('close')))
    return st.lists(op.map(list), min_size=1, max_size=4)


def _ops_stop():
    # a stopped child may be continued between two calls (job control, a debugger detaching, a supervisor): requests sent while it was stopped are then served
    base = _ops(False)
    during = st.tuples(st.just('terminate'), st.just(1), st.booleans(), st.just('cont_during')).map(list)     # ... or while a call is waiting for it
    return st.one_of(st.builds(lambda ops, k: ops[:k] + [['cont']] + ops[k:], base, st.integers(0, 3)),
                     st.builds(lambda ops, k, d: ops[:k] + [d] + ops[k:], base, st.integers(0, 3), during))


def strategy(tier):
    th = st.fixed_dictionaries({'kind': st.sampled_from(['thread', 'p_thread']), 'beh': st.sampled_from(['coop', 'swallow', 'finished', 'norun']), 'ops': _ops(True)})
    pr = st.fixed_dictionaries({'kind': st.sampled_from(['process', 'remote', 'p_process', 'p_remote']),
                                'beh': st.sampled_from(['coop', 'swallow', 'sleep', 'gil', 'stop', 'finished', 'norun', 'linger']), 'ops': _ops(False)})
    # the most unresponsive child of all: its whole host vanishes (control connection reset / closed, data connection silent; engine FAKEHOST)
    stc = st.fixed_dictionaries({'kind': st.sampled_from(['process', 'p_process', 'remote', 'p_remote']), 'beh': st.just('stop'), 'ops': _ops_stop()})
    # the child is stopped while it is blocked half way through handing over a result much bigger than the pipe buffer
    bms = st.fixed_dictionaries({'kind': st.just('process'), 'beh': st.just('stop_mid_send'), 'ops': st.one_of(_ops(False), _ops_stop())})
    hv = st.fixed_dictionaries({'kind': st.sampled_from(['remote', 'p_remote']), 'beh': st.just('host_vanished'), 'ctrl': st.sampled_from(['rst', 'fin', 'rst', 'fin', 'rst', 'fin', 'rst', 'fin', 'rst', 'silent']), 'ops': _ops(False)})
    return st.one_of(th, pr, pr, pr, pr, pr, pr, hv, stc, bms)


def setup_shard(ctx):
    def on_term(signum, frame):
        _SELF_SIGTERM['n'] += 1
    signal.signal(signal.SIGTERM, on_term)


def teardown_shard(ctx):
    IC.stop_server(ctx)


def run_case(case, ctx):
    out = Out()
    kind, beh = case['kind'], case['beh']
    persistent = kind.startswith('p_')
    thread = kind.endswith('thread')
    cls = IC.KINDS[kind]
    out.label('kind:' + kind, 'beh:' + beh)
    name = IC.fresh_name(ctx, 'c04')
    started = os.path.join(ctx.scratch, name + '.started')
    escape = os.path.join(ctx.scratch, name + '.escape')
    target, args = (None, None) if beh == 'host_vanished' else {
        'coop': (vtargets.coop_loop, [100000, started]), 'swallow': (vtargets.swallow_everything, [escape, started]),
        'sleep': (vtargets.sleep_forever, [started]), 'gil': (vtargets.hold_gil, [started]), 'stop': (vtargets.stop_self, [started]),
        'finished': (vtargets.quick_return, [7]), 'norun': (vtargets.quick_return, [7]), 'linger': (vtargets.linger, [started, 40]),
        'stop_mid_send': (vtargets.big_after_start, [6000000, started]),
    }[beh]
    kw = {'name': name}
    host = None
    if beh == 'host_vanished':
        import fakehost
        if pid_alive(fakehost.FAKE_PID):
            out.excluded = 'the pid reserved for the fake host exists'
            return out
        host = fakehost.FakeHost(answers=0, ctrl=case.get('ctrl', 'rst'), persistent=persistent)
        kw['host'] = host.addr
        target, args = vtargets.quick_return, [7]
    elif kind.endswith('remote'):
        kw['host'] = IC.server(ctx).addr
    if beh == 'norun':
        kw['run'] = False
    live_uncoop = beh in ('swallow', 'sleep', 'gil', 'stop', 'linger', 'host_vanished', 'stop_mid_send')
    w = None
    records = []
    site0 = f'{kind}:{beh}' + (('_ctrl_' + case.get('ctrl', 'rst')) if beh == 'host_vanished' else '')
    sig0 = _SELF_SIGTERM['n']
    try:
        try:
            if persistent:
                w = bounded(cls, 25, target, **kw)
                if beh not in ('norun',):
                    w.enqueue(*args)
            else:
                w = bounded(cls, 25, target, args=args, **kw)
        except BaseException as e:
            out.excluded = 'constructor failed: ' + type(e).__name__
            return out
        pid = w.pid if not thread and beh not in ('norun', 'host_vanished') else None
        if beh == 'host_vanished':
            if not host.vanished.wait(15):
                out.excluded = 'fake host did not reach its vanishing point'
                return out
            time.sleep(0.15)
        elif beh == 'stop_mid_send':
            t_end = time.monotonic() + 8
            while not os.path.exists(started) and time.monotonic() < t_end:
                time.sleep(0.005)
            time.sleep(0.4)          # the child has filled the pipe and sleeps in write()
            try:
                os.kill(pid, signal.SIGSTOP)
            except ProcessLookupError:
                out.excluded = 'child gone before it could be stopped'
                return out
            time.sleep(0.1)
        elif beh in ('coop', 'swallow', 'sleep', 'gil', 'stop', 'linger'):
            t_end = time.monotonic() + 8
            while not os.path.exists(started) and time.monotonic() < t_end:
                time.sleep(0.005)
            if not os.path.exists(started):
                out.excluded = 'target did not start within 8 s'
                return out
            if beh in ('gil', 'stop', 'sleep', 'linger'):
                time.sleep(0.15)
        elif beh == 'finished':
            if persistent:
                try:
                    bounded(w.wait, 20, 10)
                except BaseException:
                    pass
            else:
                t_end = time.monotonic() + 10
                while time.monotonic() < t_end and (pid_alive(pid) if pid else w.is_alive()):
                    time.sleep(0.01)
                time.sleep(0.05)
        dead_known = beh in ('norun',)      # 'finished': dead, but the parent has not observed it yet
        observed_dead = False
        calls_after_death = 0
        for op in case['ops']:
            what = op[0]
            tsum = 0.0
            alive_before = pid_alive(pid) if pid else None
            t0 = time.monotonic()
            try:
                if what == 'wait':
                    tsum = op[1]
                    if kind.endswith('remote'):
                        tsum += op[1]
                    ret = bounded(w.wait, 3 * tsum + 10, op[1])
                elif what == 'terminate':
                    tsum = op[1] * (2 if op[2] else 1)
                    if kind.endswith('remote'):
                        tsum += 2 * min(1, op[1])
                    if len(op) > 3 and op[3] == 'cont_during' and pid:
                        import threading

                        def _cont(pid=pid):
                            time.sleep(0.15)
                            try:
                                os.kill(pid, signal.SIGCONT)
                            except ProcessLookupError:
                                pass
                        threading.Thread(target=_cont, daemon=True).start()
                        out.label('stopped_child_continued')
                    ret = bounded(w.terminate, 3 * tsum + 10, op[1], op[2])
                elif what == 'cont':
                    if pid:
                        try:
                            os.kill(pid, signal.SIGCONT)
                        except ProcessLookupError:
                            pass
                    time.sleep(0.05)
                    out.label('stopped_child_continued')
                    ret = 'continued'
                elif what == 'is_alive':
                    ret = bounded(w.is_alive, 10)
                else:
                    ret = bounded(w.close, 10)
                    ret = 'closed'
            except Blocked:
                ret = 'BLOCKED'
            except BaseException as e:
                ret = 'RAISED:' + type(e).__name__ + ':' + str(e)[:80]
            el = time.monotonic() - t0
            alive_after = pid_alive(pid) if pid else None
            records.append([what] + op[1:] + [ret if isinstance(ret, (bool, str)) else repr(ret), round(el, 2)])
            site = f'{site0}:{what}' + (':force' if what == 'terminate' and op[2] else '')
            if ret == 'BLOCKED':
                out.viol('call_unbounded', site, f'{what}{tuple(op[1:])} still running after {3 * tsum + 10:.1f}s (timeouts passed sum to {tsum})')
                break
            if isinstance(ret, str) and ret.startswith('RAISED'):
                out.viol('call_raised:' + ret.split(':')[1], site, ret)
                continue
            if _SELF_SIGTERM['n'] > sig0:
                out.viol('call_signalled_the_caller', site, f'{what}{tuple(op[1:])} sent SIGTERM to the calling process')
                sig0 = _SELF_SIGTERM['n']
            if what in ('wait', 'terminate'):
                if observed_dead or dead_known:
                    calls_after_death += 1
                    if ret is not True:
                        out.viol('false_on_dead_worker', site, f'{what} returned {ret!r} on a worker already observed dead')
                    if el > 1.0:
                        out.viol('slow_on_dead_worker', site, f'{what} took {el:.2f}s on a dead worker')
                if ret is True:
                    try:
                        if bounded(w.is_alive, 10):
                            out.viol('true_but_alive', site, f'{what} returned True but is_alive() is True')
                    except BaseException:
                        pass
                    if pid and pid_alive(pid):
                        left = wait_gone([pid], 1.0)
                        if left:
                            out.viol('true_but_child_process_alive', site, f'{what} returned True but pid {pid} is still alive 1 s later')
                    observed_dead = True
                elif ret is False:
                    if pid and alive_before is False and alive_after is False and beh != 'finished':
                        out.viol('false_but_child_gone', site, f'{what} returned False although pid {pid} was gone before and after the call')
                    if what == 'terminate' and op[2] and not thread:
                        out.viol('forced_terminate_failed', site, f'terminate(timeout={op[1]}, force=True) returned False; child pid {pid} alive: {alive_after}')
                if what == 'terminate' and op[2] and live_uncoop and not thread:
                    out.label('force_true_on_uncooperative')
            elif what == 'is_alive':
                if ret is False:
                    observed_dead = True
                if (observed_dead or dead_known) and ret is not False:
                    out.viol('alive_after_death', site, f'is_alive() returned {ret!r} after death was observed')
        if calls_after_death >= 2:
            out.label('calls_after_death>=2')
        out.nontrivial = (live_uncoop and any(o[0] in ('wait', 'terminate') for o in case['ops'])) or calls_after_death >= 2
        out.obs = {'calls': records}
    finally:
        try:
            open(escape, 'w').close()
        except OSError:
            pass
        if host is not None:
            host.close()
        if w is not None and host is not None:
            try:
                bounded(w.terminate, 10, 0, True)
            except BaseException:
                pass
        elif w is not None:
            try:
                pid = w.pid
                if not thread and pid and pid != os.getpid() and pid_alive(pid):
                    os.kill(pid, signal.SIGKILL)
            except Exception:
                pass
            try:
                bounded(w.terminate, 10, 1, False) if thread else bounded(w.terminate, 10, 1)
            except BaseException:
                pass
        for f in (started, escape):
            try:
                os.unlink(f)
            except OSError:
                pass
    return out


TRIGGERS = {}
