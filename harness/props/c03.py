"""C03 - graceful terminate interrupts the target wherever it is and is reported as such (engine INJECT)."""
import os
import inspect

from hypothesis import strategies as st

from core import Out
import injcases as IC
import vtargets

ID = 'C03'
LEVEL = 'fault_enumeration'
INJECT = True
RULE = ('case = (worker class, target phase {python loop inside try/finally, just returning, raising its own exception, persistent idle / busy with items}, '
        'landing index n): the injector stops the child at its n-th traced line (from construction-complete to exit), the harness calls the real '
        'terminate(timeout=5, force=False) and the asynchronous WorkerTerminatedError surfaces at that line. Oracle: terminate returns True and the worker is '
        'dead; outcome is the terminated shape or the own outcome of the target, nothing else; if the exception was delivered inside the try body of the target, '
        'the terminated shape is required and the marker written by the finally block of the target must exist and name the thread of the worker. '
        'Non-trivial = exception delivered at the requested line; distinct = distinct (kind, scenario, landing index).')
ASSUMPTIONS = ['line-level landing points; delivery of the async exception inside the tracer is equivalent to delivery between two lines',
               'the child is held at the landing for at most 0.6 s; all timeouts passed to terminate are 5 s (remote_timeout too)']
SHRINK = 'none'
TIME_BUDGET = {'quick': 170, 'thorough': 1700}
REQUIRED = {'quick': {'delivered': 150, 'land:target_try_body': 40, 'land:after_target': 20, 'land:handler': 3, 'idle_persistent': 10, 'terminate_after_own_end': 60, 'control_thread_held': 40, 'scenario:spin_state': 20},
            'thorough': {'delivered': 1500, 'land:target_try_body': 300, 'land:target_finally': 5, 'land:after_target': 200, 'land:handler': 30}}

_src = inspect.getsource(vtargets).splitlines()
_LF_BEGIN = next(i + 1 for i, l in enumerate(_src) if 'LF_TRY_BEGIN' in l) + 1   # first line inside the try body
_LF_END = next(i + 1 for i, l in enumerate(_src) if 'LF_TRY_END' in l)
_SF_BEGIN = next(i + 1 for i, l in enumerate(_src) if 'SF_TRY_BEGIN' in l) + 1
_SF_END = next(i + 1 for i, l in enumerate(_src) if 'SF_TRY_END' in l)


def examples(tier):
    return 1350 if tier == 'quick' else 8000


def shards(tier):
    return 16


def strategy(tier):
    # (opcode-level landings for thread workers: the tracer supports granularity='opcode', but CPython 3.12.1 does not deliver
    # 'opcode' events to frames of non-main threads reliably - probed, see DESIGN.md 6 - so both tiers stay at line granularity)
    return _line_strategy()


def _line_strategy():
    one = st.fixed_dictionaries({
        'kind': st.sampled_from(IC.ONE_SHOT), 'scenario': st.sampled_from(['loop_finally', 'loop_finally', 'spin_finally', 'spin_finally', 'quick_return', 'raise_own']),
        'rounds': st.sampled_from([3, 6, 12]),
        'inject': st.fixed_dictionaries({'mode': st.just('terminate'), 'n_raw': st.integers(0, 600), 'focus': st.sampled_from(['any', 'target'])})})
    pers = st.fixed_dictionaries({
        'kind': st.sampled_from(IC.PERSISTENT), 'scenario': st.just('persist'), 'items': st.lists(st.sampled_from([1, 2, 'POISON']), max_size=3),
        'close': st.booleans(), 'pipe': st.sampled_from(['default', 'supplied']),
        'inject': st.fixed_dictionaries({'mode': st.just('terminate'), 'n_raw': st.integers(0, 600)})})
    # terminate landing while the child is inside the code that sends a (small or > 64 KiB) partial result - between any two lines of
    # send_msg / _send_result / put (round-4 seed C03-m8: header and body of a large message sent by two calls)
    # (large results only where nothing between the child and the parent's unbounded default queue can fill up: C03 does not read the
    # results, and a forwarding thread blocked on a full caller-supplied OS pipe legitimately keeps the worker alive - false alarm of the
    # first version of this generator, 5.3)
    sendf = st.one_of(
        st.fixed_dictionaries({
            'kind': st.just('p_remote'), 'scenario': st.just('persist'), 'items': st.lists(st.sampled_from([1, 'BIG', 'BIG']), min_size=1, max_size=3),
            'close': st.booleans(), 'pipe': st.just('default'),
            'inject': st.fixed_dictionaries({'mode': st.just('terminate'), 'n_raw': st.integers(0, 600), 'focus': st.sampled_from(['send', 'send_msg'])})}),
        st.fixed_dictionaries({
            'kind': st.sampled_from(IC.PERSISTENT), 'scenario': st.just('persist'), 'items': st.lists(st.sampled_from([1, 2]), min_size=1, max_size=3),
            'close': st.booleans(), 'pipe': st.sampled_from(['default', 'supplied']),
            'inject': st.fixed_dictionaries({'mode': st.just('terminate'), 'n_raw': st.integers(0, 600), 'focus': st.just('send')})}))
    idle = st.fixed_dictionaries({
        'kind': st.sampled_from(IC.PERSISTENT), 'scenario': st.just('persist'), 'items': st.lists(st.sampled_from([1, 2]), max_size=2),
        'close': st.just(False), 'pipe': st.just('default'), 'settle': st.sampled_from([0.0, 0.05, 0.3]),
        'inject': st.just({'mode': 'terminate_now'})})
    fin = st.fixed_dictionaries({
        'kind': st.sampled_from(IC.ONE_SHOT + IC.PERSISTENT), 'scenario': st.sampled_from(['quick_return', 'raise_own']),
        'items': st.lists(st.sampled_from([1, 2, 'POISON']), max_size=2), 'close': st.just(True), 'pipe': st.just('default'),
        'inject': st.just({'mode': 'terminate_finished'})})
    # the child-side control thread (which receives the request, injects the exception and acknowledges) is held at one of its lines
    # for a moment: whatever the parent does meanwhile must not let the worker slip away with a different outcome
    held = st.fixed_dictionaries({
        'kind': st.just('p_process'), 'scenario': st.just('persist'), 'items': st.lists(st.sampled_from([1, 2]), max_size=2),
        'close': st.just(False), 'pipe': st.just('default'), 'settle': st.sampled_from([0.05, 0.3]),
        'inject': st.just({'mode': 'terminate_now'}), 'ctrl': st.fixed_dictionaries({'mode': st.just('pause'), 'n_raw': st.integers(0, 40), 'hold': st.sampled_from([0.2, 0.5])}),
        'term': st.sampled_from([{'timeout': 5, 'force': False}, {'timeout': None, 'force': False}, {'timeout': 5, 'force': True}])})
    # a remote worker in an endless target whose user_state cannot be sent / cannot be rebuilt by the parent: the outcome and the state
    # travel as two messages, losing the second must not cost the first
    ust = st.fixed_dictionaries({
        'kind': st.just('remote'), 'scenario': st.sampled_from(['spin_state:lock', 'spin_state:needsargs']), 'items': st.just([]), 'close': st.just(False),
        'pipe': st.just('default'), 'settle': st.sampled_from([0.2, 0.4]), 'inject': st.just({'mode': 'terminate_now'})})
    return st.one_of(one, one, one, pers, pers, idle, fin, held, ust, sendf, sendf)


def exhaustive(tier, shard, nshards):
    idx = 0
    if tier != 'thorough':
        # every landing index of the one-shot process worker (returning and raising target)
        for sc in ('quick_return', 'raise_own'):
            for k in range(0, 110):
                idx += 1
                if idx % nshards == shard:
                    yield {'kind': 'process', 'scenario': sc, 'inject': {'mode': 'terminate', 'n_index': k}}
        return
    for kind in IC.ONE_SHOT:
        for k in range(0, 260):
            idx += 1
            if idx % nshards == shard:
                yield {'kind': kind, 'scenario': 'loop_finally', 'rounds': 3, 'inject': {'mode': 'terminate', 'n_index': k}}


def own_outcome(case):
    sc = case['scenario']
    if sc == 'quick_return':
        return [(False, IC.enc(('ok', 7)), None)]
    if sc == 'loop_finally':
        return [(False, IC.enc(('done', case.get('rounds', 3))), None)]
    if sc == 'raise_own':
        return [(True, None, {'exc': 'ValueError', 'args': repr(('own', 'x', 2))})]
    if sc == 'spin_finally' or sc.startswith('spin_state:'):
        return []       # never ends on its own
    items = case.get('items', [])
    pre = IC.expected_items(items)
    outs = [(False, k, None) for k in range(0, len(pre) + 1)]
    if 'POISON' in items:
        outs.append((True, None, {'exc': 'ValueError', 'args': repr(('poison item',))}))
    return outs


_WTE = {'exc': 'WorkerTerminatedError', 'args': repr(('terminate called',))}


def _ctrl_census(case, ctx):
    key = ('ctrl', case['kind'])
    cache = ctx.data.setdefault('census', {})
    if key not in cache:
        c = dict(case, items=[], inject={'mode': 'terminate_now'}, ctrl={'mode': 'census'}, settle=0.3, observe=[])
        obs = IC.execute(c, ctx)
        tr = obs.get('ctrl_trace') or []
        i0 = next((i for i, e in enumerate(tr) if e[2] == '_ctrl_fn' and e[1] == 'process.py'), None)
        # events after the blocking recv() of the request: everything from the first line that follows it
        recv_i = None
        import pyworkers
        src = open(os.path.join(os.path.dirname(pyworkers.__file__), 'process.py')).read().splitlines()
        for i, e in enumerate(tr):
            if e[1] == 'process.py' and e[2] == '_ctrl_fn' and 'child_end.recv()' in src[e[3] - 1]:
                recv_i = i
        cache[key] = [e[0] for e in tr[recv_i + 1:]] if recv_i is not None else []
    return cache[key]


_SEND_FUNCS = ('send_msg', '_send_result', 'put', '_send_partial_result', 'send')


def run_case(case, ctx):
    out = Out()
    inj = dict(case['inject'])
    kind = case['kind']
    c = dict(case, observe=['has_error', 'result', 'error', 'is_alive'])
    if inj['mode'] == 'terminate':
        cen = IC.census(case, ctx)
        span = cen['M'] - cen['s0']
        if span <= 0:
            out.excluded = 'empty census'
            return out
        if 'n_index' in inj:
            if inj['n_index'] >= span:
                out.excluded = 'index beyond the census of this scenario'
                return out
            inj['n'] = cen['s0'] + inj['n_index']
        elif (inj.get('focus') == 'target' or case['scenario'] == 'spin_finally' and inj['n_raw'] % 4) and any(e[1] == 'vtargets.py' for e in cen['trace']):
            cand = [e[0] for e in cen['trace'] if e[1] == 'vtargets.py' and e[0] >= cen['s0']]
            inj['n'] = cand[inj['n_raw'] % len(cand)]
        elif inj.get('focus') in ('send', 'send_msg') and any(e[2] in _SEND_FUNCS for e in cen['trace'] if e[0] >= cen['s0']):
            funcs = _SEND_FUNCS if inj['focus'] == 'send' or not any(e[2] == 'send_msg' for e in cen['trace'] if e[0] >= cen['s0']) else ('send_msg',)
            cand = [e[0] for e in cen['trace'] if e[2] in funcs and e[0] >= cen['s0']]
            inj['n'] = cand[inj['n_raw'] % len(cand)]
            out.label('focus:result_send')
        else:
            inj['n'] = cen['s0'] + inj['n_raw'] % span
        c['inject'] = inj
    elif inj['mode'] == 'terminate_finished':
        if kind.startswith('p_'):
            c['scenario'] = 'persist'
        out.label('terminate_after_own_end')
    else:
        out.label('idle_persistent')
    if case.get('ctrl'):
        cand = _ctrl_census(case, ctx)
        if not cand:
            out.excluded = 'empty census of the control thread'
            return out
        c['ctrl'] = dict(case['ctrl'], n=cand[case['ctrl']['n_raw'] % len(cand)])
    obs = IC.execute(c, ctx)
    if case.get('ctrl') and obs.get('ctrl_reached'):
        out.label('control_thread_held')
    if obs['ctor'] != 'ok':
        out.excluded = 'constructor did not return a worker: ' + obs['ctor'][:60]
        return out
    reached = obs.get('reached')
    region = IC.region_of(reached) if inj['mode'] == 'terminate' else ('finished:' if inj['mode'] == 'terminate_finished' else 'idle:') + kind
    site = region
    out.label('kind:' + kind, 'scenario:' + case['scenario'].split(':')[0], 'granularity:' + inj.get('granularity', 'line'))
    in_try_body = in_target = False
    if reached:
        parts = region.split(':')[-1].split('>')
        if 'handler' in parts:
            out.label('land:handler')
        tframes = [fr for fr in reached.get('stack', []) if fr[0] == 'vtargets.py']
        if tframes:
            in_target = True
            fr = tframes[0]
            if fr[1] in ('loop_finally', 'spin_finally'):
                lo, hi = (_LF_BEGIN, _LF_END) if fr[1] == 'loop_finally' else (_SF_BEGIN, _SF_END)
                if lo <= fr[2] <= hi:
                    in_try_body = True
                    out.label('land:target_try_body')
                elif fr[2] > hi:
                    out.label('land:target_finally')
            else:
                out.label('land:in_other_target')
        elif obs.get('delivered') and inj['n'] > 0:
            tr = obs.get('trace', [])
            if any(e[1] == 'vtargets.py' for e in tr[:inj['n']]):
                out.label('land:after_target')
            else:
                out.label('land:before_target')
    if obs.get('delivered'):
        out.label('delivered')
    out.nontrivial = bool(obs.get('delivered')) or inj['mode'] in ('terminate_now', 'terminate_finished')
    out.key = {'kind': kind, 'sc': case['scenario'], 'rounds': case.get('rounds'), 'items': case.get('items'), 'close': case.get('close'),
               'n': inj.get('n'), 'settle': case.get('settle')}

    tr_ret = obs.get('term_ret')
    if tr_ret == 'blocked':
        out.viol('terminate_blocked', site, f'terminate(timeout=5, force=False) did not return within {IC.GUARD}s')
    elif isinstance(tr_ret, str) and tr_ret.startswith('raised:'):
        out.viol('terminate_' + tr_ret, site, obs.get('term_exc'))
    elif tr_ret is not True:
        out.viol('terminate_returned_false', site, f'terminate returned {tr_ret!r} after {obs.get("term_elapsed")}s although the target lets the exception propagate')
    if tr_ret is True and not obs['dead']:
        out.viol('alive_after_true', site, 'terminate returned True but is_alive() is True')
    reads = dict((k, v) for k, v in obs['reads'])
    he, res, err = reads.get('has_error'), reads.get('result'), reads.get('error')
    got = (he, res, err)
    if obs['dead']:
        terminated = (he is True and res is None and err == _WTE)
        owns = own_outcome(c)
        if inj['mode'] == 'terminate_finished' and terminated:
            out.viol('finished_worker_reported_as_terminated', site, f'the target had ended on its own before terminate() was called, yet the outcome is {got!r}')
        own = any(he == o[0] and res == o[1] and err == o[2] for o in owns)
        if not terminated and not own:
            out.viol('outcome_neither_terminated_nor_own', site, f'(has_error, result, error) = {got!r}')
        if inj['mode'] == 'terminate_now' and kind in ('p_thread', 'p_process') and not case.get('close') and not terminated \
                and 'POISON' not in case.get('items', []):
            # an idle (not closed) persistent worker has not finished on its own; for these two kinds the request is injected
            # before the child is released, so the terminated shape is the only possible outcome
            out.viol('idle_worker_terminate_not_reported', site, f'terminate() on an idle persistent worker ended with {got!r}')
        if obs.get('delivered') and in_try_body:
            if not terminated:
                out.viol('delivered_in_target_but_not_reported', site, f'exception delivered inside the target try body, outcome {got!r}')
            m = obs.get('marker')
            if not m:
                out.viol('finally_did_not_run', site, 'target was interrupted inside its try body but its finally block left no marker')
            elif m.get('pid') != obs.get('pid') or m.get('native_id') != obs.get('tid'):
                out.viol('finally_ran_in_wrong_thread', site, f'marker {m} vs worker pid/tid {obs.get("pid")}/{obs.get("tid")}')
    out.obs = {'site': site, 'line': IC.site_of(reached), 'delivered': obs.get('delivered'), 'term_ret': tr_ret, 'elapsed': obs.get('term_elapsed'),
               'outcome': got, 'marker': bool(obs.get('marker'))}
    return out


def teardown_shard(ctx):
    IC.stop_server(ctx)


TRIGGERS = {}
