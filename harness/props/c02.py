"""C02 - all worker kinds compute exactly what a direct call would (engine OS)."""
import json
import os
import subprocess
import sys
import time

from hypothesis import strategies as st

from core import Out, bounded, Blocked, census, HARNESS, REPO
import injcases as IC
import vtargets

ID = 'C02'
LEVEL = 'exploration'
RULE = ('case = (target {return a generated value, return n bytes, raise exception class x args, echo args/kwargs}, positional/keyword arguments, creation '
        'route {constructor, Worker.create}, run {None, True, False}, target None). Values: None/False/0/0.0/""/()/[]/{} and nested containers, custom class '
        'with __eq__, byte strings of 0, 1, 65535, 65536, 65537, 2^18, 2^20, 3*2^20 bytes. The same case runs on a thread, a process and a remote worker and as a '
        'direct call; wait() is called without timeout under a hang guard. A few cases per run execute a real main script whose target/value/exception classes '
        'live in __main__. Oracle: direct call returns v => has_error False, result == v, error None; raises e => has_error True, result None, same type and args; '
        'kinds agree pairwise; not-run workers are dead at once with (False, None, None) and create no process. '
        'Non-trivial = falsy/None result, or > 64 KiB, or exception with args, or not-run, or main-script; distinct = distinct case.')
ASSUMPTIONS = ['NaN is excluded (== is the oracle)', 'hang guard 40 s for wait() without timeout']
SHRINK = 'none'
TIME_BUDGET = {'quick': 170, 'thorough': 1700}
REQUIRED = {'quick': {'size<=64K': 12, 'size>208K': 12, 'falsy_result': 30, 'exception': 40, 'not_run': 20, 'route:create': 40, 'main_script': 3, 'timed_wait': 100, 'long_running_target': 3},
            'thorough': {'size<=64K': 150, 'size>208K': 60, 'falsy_result': 300, 'exception': 400, 'not_run': 200, 'main_script': 30}}
GUARD = 40.0

_leaf = st.one_of(st.none(), st.booleans(), st.integers(-10**12, 10**12), st.sampled_from([0, 0.0, '', 1.5, -0.0]), st.text(max_size=8),
                  st.floats(allow_nan=False, allow_infinity=True))
_val = st.recursive(_leaf, lambda c: st.one_of(st.lists(c, max_size=3), st.dictionaries(st.text(alphabet='abc', max_size=3), c, max_size=3),
                                               st.builds(lambda l: {'__tuple__': l}, st.lists(c, max_size=3)),
                                               st.builds(lambda a, b: {'__point__': [a, b]}, c, c)), max_leaves=6)
_SIZES = [0, 1, 65535, 65536, 65537, 2 ** 18, 2 ** 20, 3 * 2 ** 20]


def examples(tier):
    return 900 if tier == 'quick' else 6000


def shards(tier):
    return 16


def strategy(tier):
    ret = st.builds(lambda v: {'target': 'ret', 'value': v}, st.one_of(_val, st.sampled_from([None, False, 0, 0.0, '', [], {}, {'__tuple__': []}])))
    byt = st.builds(lambda n, j: {'target': 'bytes', 'n': max(0, n + j)}, st.one_of(st.sampled_from(_SIZES), st.sampled_from(_SIZES[4:]), st.integers(0, 300000)),
                    st.integers(-3, 3))
    exc = st.builds(lambda k, a: {'target': 'raise', 'exc': k, 'args': a}, st.sampled_from(['ValueError', 'KeyError', 'Custom', 'BrokenPipeError', 'ConnectionResetError', 'EOFError', 'OSError', 'TimeoutError', 'StopIteration', 'AssertionError']),
                    st.lists(st.one_of(st.integers(0, 9), st.text(max_size=4)), max_size=3))
    ech = st.builds(lambda a, k: {'target': 'echo', 'args': a, 'kwargs': k}, st.lists(_val, max_size=3), st.dictionaries(st.sampled_from(['a', 'b', 'c']), _val, max_size=2))
    base = st.one_of(ret, byt, byt, byt, exc, ech)
    return st.builds(lambda b, route, run, tnone, ms, wm: dict(b, route=route, run=run, target_none=tnone, main_script=ms, wait_mode=wm), base,
                     st.sampled_from(['ctor', 'ctor', 'create']), st.sampled_from([None, None, None, True, False]),
                     st.sampled_from([False] * 9 + [True]), st.sampled_from([None] * 40 + ['point', 'raise', 'plain']),
                     st.sampled_from(['plain', 'plain', 'timed', 'poll:0.001', 'poll:0', 'poll:0.01']))


def dejson(v):
    if isinstance(v, dict) and '__tuple__' in v:
        return tuple(dejson(x) for x in v['__tuple__'])
    if isinstance(v, dict) and '__point__' in v:
        return vtargets.Point(dejson(v['__point__'][0]), dejson(v['__point__'][1]))
    if isinstance(v, dict):
        return {k: dejson(x) for k, x in v.items()}
    if isinstance(v, list):
        return [dejson(x) for x in v]
    return v


def _call(case):
    t = case['target']
    if t == 'ret':
        return vtargets.ret_value, [dejson(case['value'])], {}
    if t == 'bytes':
        return vtargets.make_bytes, [case['n']], {}
    if t == 'raise':
        return vtargets.raise_exc, [case['exc'], [dejson(a) for a in case['args']]], {}
    return vtargets.echo, [dejson(a) for a in case['args']], {k: dejson(v) for k, v in case['kwargs'].items()}


def _same(a, b):
    try:
        return type(a) is type(b) and a == b
    except Exception:
        return False


def run_main_script(case, ctx, out):
    srv = IC.server(ctx)
    spec = {'mode': case['main_script'], 'x': 5}
    env = dict(os.environ, PYTHONPATH=os.pathsep.join([REPO, HARNESS]))
    env.pop('VERIF_INJECT_DIR', None)
    try:
        p = subprocess.run([sys.executable, os.path.join(HARNESS, 'mainscript_c02.py'), srv.addr[0], str(srv.addr[1]), json.dumps(spec)],
                           capture_output=True, text=True, timeout=120, env=env, cwd=ctx.scratch, start_new_session=True)
    except subprocess.TimeoutExpired:
        out.viol('main_script_hangs', 'main_script:' + spec['mode'], 'script with __main__-defined target did not finish in 120 s')
        return
    line = next((l for l in p.stdout.splitlines() if l.startswith('RESULT ')), None)
    if line is None:
        out.viol('main_script_crashed', 'main_script:' + spec['mode'], (p.stderr or p.stdout)[-300:])
        return
    r = json.loads(line[7:])
    direct = r['direct']
    out.obs = {'main_script': r}
    for kind in ('thread', 'process', 'remote'):
        k = r[kind]
        site = f'main_script:{spec["mode"]}:{kind}'
        if k.get('blocked'):
            out.viol('wait_never_returned', site, 'blocked')
            continue
        if 'raised' in k:
            out.viol('worker_raised:' + k['raised'], site, k.get('msg'))
            continue
        if direct[0] == 'ret':
            if k['has_error'] is not False or k['result'] != direct[1] or k['error'] is not None:
                out.viol('differs_from_direct_call', site, f'direct returned {direct[1]}, worker: {k}')
        else:
            if k['has_error'] is not True or k['result'] is not None or k['error'] != [direct[1], direct[2]]:
                out.viol('differs_from_direct_call', site, f'direct raised {direct[1:]}, worker: {k}')


def exhaustive(tier, shard, nshards):
    # long-running work (nothing travels on any pipe / connection for several seconds); one case per shard, all kinds at the same time
    for i, secs in enumerate([5.6, 7.0, 5.6, 11.0] if tier == 'quick' else [5.6, 7.0, 11.0, 16.0, 31.0, 5.6, 7.0, 11.0]):
        if i % nshards == shard:
            yield {'target': 'slow', 'seconds': secs, 'value': i, 'route': 'create' if i % 2 else 'ctor', 'wait_mode': 'timed' if i % 3 == 0 else 'plain'}


def run_slow(case, ctx, out):
    from pyworkers.worker import Worker, WorkerType
    out.label('long_running_target')
    out.nontrivial = True
    srv = IC.server(ctx)
    expected = ('slow', case['value'])
    ws = {}
    try:
        for kind, wt in (('thread', WorkerType.THREAD), ('process', WorkerType.PROCESS), ('remote', WorkerType.REMOTE)):
            kw = {'args': [case['seconds'], case['value']]}
            if kind == 'remote':
                kw['host'] = srv.addr
            try:
                ws[kind] = bounded(Worker.create, 25, wt, vtargets.slow_ret, **kw) if case['route'] == 'create' else bounded(IC.KINDS[kind], 25, vtargets.slow_ret, **kw)
            except BaseException as e:
                out.viol('constructor_raised:' + type(e).__name__, f'{kind}:slow', str(e)[:150])
        res = {}
        for kind, w in ws.items():
            site = f'{kind}:slow:{case["seconds"]}s'
            try:
                if case['wait_mode'] == 'timed':
                    ok = False
                    for _ in range(int(case['seconds'] + 25)):
                        ok = bounded(w.wait, GUARD, 1)
                        if ok:
                            break
                else:
                    ok = bounded(w.wait, case['seconds'] + GUARD)
            except Blocked:
                out.viol('wait_never_returned', site, 'wait() still blocked long after the target must have returned')
                continue
            except BaseException as e:
                out.viol('wait_raised:' + type(e).__name__, site, str(e)[:150])
                continue
            he, r, err = w.has_error, w.result, w.error
            res[kind] = (he, repr(r), repr(err))
            if ok is not True:
                out.viol('wait_returned_false', site, repr(ok))
            if he is not False or err is not None or not _same(r, expected):
                out.viol('differs_from_direct_call', site, f'direct call returns {expected!r}; worker: has_error={he} result={r!r} error={err!r}')
        out.obs = {'seconds': case['seconds'], 'kinds': res}
    finally:
        for w in ws.values():
            try:
                bounded(w.terminate, 10, timeout=1)
            except BaseException:
                pass
    return out


def run_case(case, ctx):
    from pyworkers.worker import Worker, WorkerType
    out = Out()
    if case.get('target') == 'slow':
        return run_slow(case, ctx, out)
    if case.get('main_script'):
        out.label('main_script')
        out.nontrivial = True
        run_main_script(case, ctx, out)
        return out
    target, args, kwargs = _call(case)
    if case['target_none']:
        target = None
    run = case['run']
    will_run = bool(target) if run is None else run
    if will_run and target is None:
        will_run = True   # run=True with target None: Worker.run returns None
    try:
        direct = ('ret', target(*args, **kwargs) if target is not None else None)
    except Exception as e:
        direct = ('exc', e)
    if not will_run:
        out.label('not_run')
    if direct[0] == 'exc':
        out.label('exception')
    size = len(direct[1]) if direct[0] == 'ret' and isinstance(direct[1], bytes) else 0
    if case['target'] == 'bytes' and will_run and target is not None:
        out.label('size<=64K' if size <= 65536 else ('size>208K' if size > 212992 else 'size_64K-208K'))
    if direct[0] == 'ret' and not direct[1] and will_run:
        out.label('falsy_result')
    out.label('route:' + case['route'])
    out.nontrivial = (not will_run) or direct[0] == 'exc' or size > 65536 or (direct[0] == 'ret' and not direct[1])
    results = {}
    srv = IC.server(ctx)
    for kind, wt in (('thread', WorkerType.THREAD), ('process', WorkerType.PROCESS), ('remote', WorkerType.REMOTE)):
        site = f'{kind}:{case["target"]}' + (':big' if size > 65536 else '') + ('' if will_run else ':not_run')
        kw = {'args': args, 'kwargs': kwargs}
        if run is not None:
            kw['run'] = run
        if kind == 'remote':
            kw['host'] = srv.addr
        before = set(census(ctx.tag)) if not will_run else None
        try:
            if case['route'] == 'create':
                w = bounded(Worker.create, 25, wt, target, **kw)
            else:
                w = bounded(IC.KINDS[kind], 25, target, **kw)
        except Blocked:
            out.viol('constructor_blocked', site, '')
            continue
        except BaseException as e:
            out.viol('constructor_raised:' + type(e).__name__, site, str(e)[:150])
            continue
        try:
            if not will_run:
                if w.is_alive():
                    out.viol('not_run_worker_alive', site, 'is_alive() True for a worker that was not run')
                new = [p for p in census(ctx.tag) if p not in before]
                if new and kind != 'thread':
                    out.viol('not_run_worker_created_process', site, f'{len(new)} new process(es)')
            t0 = time.monotonic()
            try:
                if case.get('wait_mode') == 'timed':
                    # the documented alternative: poll with a finite timeout until the worker is done
                    out.label('timed_wait')
                    ok = False
                    for _ in range(6):
                        ok = bounded(w.wait, GUARD, 5)
                        if ok:
                            break
                elif str(case.get('wait_mode', '')).startswith('poll:'):
                    # the polling idiom `while not w.wait(t): ...` with a timeout far below the time the result needs to travel: many timed
                    # waits expire while the (large) result is still being received (round-4 seed C02-m8: every one started another reader)
                    out.label('polled_wait')
                    t_ = float(case['wait_mode'].split(':')[1])
                    ok = False
                    polls = 0
                    while time.monotonic() - t0 < GUARD:
                        polls += 1
                        ok = bounded(w.wait, GUARD, t_)
                        if ok:
                            break
                        if t_ == 0:
                            time.sleep(0.0005)
                    if polls > 1:
                        out.label('polled_wait_expired_at_least_once')
                    if not ok:
                        raise Blocked()
                else:
                    ok = bounded(w.wait, GUARD)
            except Blocked:
                out.viol('wait_never_returned', site, f'wait() without timeout still blocked after {GUARD}s (result size {size})')
                continue
            except BaseException as e:
                out.viol('wait_raised:' + type(e).__name__, site, str(e)[:150])
                continue
            he, res, err = w.has_error, w.result, w.error
            results[kind] = (he, res, err)
            if ok is not True:
                out.viol('wait_returned_false', site, repr(ok))
            if not will_run:
                if he is not False or res is not None or err is not None:
                    out.viol('not_run_outcome', site, f'(has_error, result, error) = {(he, res, err)!r}, expected (False, None, None)')
            elif direct[0] == 'ret':
                if he is not False or err is not None or not _same(res, direct[1]):
                    out.viol('differs_from_direct_call', site, f'direct call returned {direct[1]!r:.80}; worker: has_error={he} result={res!r:.80} error={err!r}')
            else:
                e = direct[1]
                if he is not True or res is not None or type(err) is not type(e) or err.args != e.args:
                    out.viol('differs_from_direct_call', site, f'direct call raised {e!r}; worker: has_error={he} result={res!r:.60} error={err!r}')
        finally:
            try:
                bounded(w.terminate, 10, timeout=1)
            except BaseException:
                pass
    out.obs = {'direct': direct[0], 'size': size, 'kinds': {k: (v[0], type(v[1]).__name__, type(v[2]).__name__) for k, v in results.items()}}
    return out


def setup_shard(ctx):
    # Pool creates its workers through PersistentWorker.create(...): do the same once per type so that the one-shot factory is
    # exercised in a process where the persistent factory has already been used
    from pyworkers.persistent import PersistentWorker
    from pyworkers.worker import WorkerType
    srv = IC.server(ctx)
    for wt in (WorkerType.THREAD, WorkerType.PROCESS, WorkerType.REMOTE):
        kw = {'host': srv.addr} if wt == WorkerType.REMOTE else {}
        w = bounded(PersistentWorker.create, 30, wt, vtargets.sq, **kw)
        bounded(w.wait, 30, 10)


def teardown_shard(ctx):
    IC.stop_server(ctx)


TRIGGERS = {}
