"""C15 - load-time state patches reach only the addressed objects and leave no residue (engine GRAPH)."""
import copy
import pickle
import threading

from hypothesis import strategies as st

from core import Out
import graphs as G
from props import c14
from pyworkers import remote_pickle as rp

ID = 'C15'
LEVEL = 'exploration'
RULE = ('case = object graph (70% chains of 1-3 opt-in objects linked by direct attributes with scalar/container/plain-object attributes, 30% the general '
        'C14 graph grammar) + patch dictionary derived from the graph (keys: existing top-level state keys, the name of the opt-in direct child, fresh names; '
        'values: scalars, dicts addressing the child state, one more nested level) + a history of earlier loads on the same thread (plain, patched, '
        'truncated stream, raising __setstate__) or 2-4 concurrent threads with distinct patch values. Oracle: reference patch semantics written from the '
        'property text, evaluated by the standard pickle module on a twin graph whose addressed objects merge the patch into their state; the result must also '
        'equal what the same call returns on a fresh thread. Non-trivial = non-empty patch and >=2 opt-in instances, or a failing call before the judged call, '
        'or concurrent threads; distinct = distinct case.')
ASSUMPTIONS = ['reference semantics: patch key k -> dict value + opt-in direct child with dict state under k => recurse into that child, otherwise top.state[k] = value; '
               'if the top-level object is not an opt-in object with dict state nothing may be modified',
               'cases whose patch addresses a non-dict state are excluded (the property does not define them)']
SHRINK = 'greedy'
SHRINK_RUNS = 300
TIME_BUDGET = {'quick': 150, 'thorough': 1500}
FUZZ = {'quick': (2, 3000), 'thorough': (4, 150000)}     # coverage-guided shards: (processes, libFuzzer runs each)
REQUIRED = {'quick': {'patch_nonempty': 2000, 'patch_child_dict': 300, 'patch_nested2': 50, 'history_failing_before': 300, 'threads': 100, 'patch_fresh_key': 300},
            'thorough': {'patch_nonempty': 20000, 'patch_child_dict': 3000, 'patch_nested2': 500, 'history_failing_before': 3000, 'threads': 1000}}


def examples(tier):
    return 10000 if tier == 'quick' else 400000


def shards(tier):
    return 8 if tier == 'quick' else 16


_val = st.one_of(st.integers(1000, 1005), st.sampled_from(['PV', 'PW']), st.none())
_names = ['a', 'b', 'c', 'k']


@st.composite
def chain_case(draw):
    depth = draw(st.integers(1, 3))
    nodes = [{'t': 'scalar', 'v': 1}, {'t': 'scalar', 'v': 'x'}, {'t': 'list', 'items': [0, 1]}, {'t': 'inst', 'cls': 'P0', 'attrs': {'a': 0}}]
    child_idx = None
    names = []
    for d in range(depth):
        cls = draw(st.sampled_from(G.SAFE_OPTIN if d < depth - 1 or draw(st.integers(0, 4)) else G.OPTIN_NAMES))
        attrs = {}
        for nm in draw(st.lists(st.sampled_from(_names), max_size=3, unique=True)):
            attrs[nm] = draw(st.integers(0, 3))
        cname = None
        if child_idx is not None:
            cname = draw(st.sampled_from(['c', 'k', 'child']))
            attrs[cname] = child_idx
        names.append(cname)
        nodes.append({'t': 'inst', 'cls': cls, 'attrs': attrs})
        child_idx = len(nodes) - 1
    # patches: walk down from the root
    def mk(level):
        node = nodes[len(nodes) - 1 - level]
        p = {}
        keys = draw(st.lists(st.sampled_from(_names + ['fresh', 'zz']), max_size=3, unique=True))
        for k in keys:
            p[k] = draw(_val)
        cname = names[len(names) - 1 - level]
        if cname is not None and draw(st.integers(0, 2)) > 0:
            if draw(st.integers(0, 5)) == 0:
                p[cname] = draw(_val)              # non-dict value replaces the child
            else:
                p[cname] = mk(level + 1)
        if draw(st.integers(0, 9)) == 0:
            p['fresh'] = {'q': 1}                   # dict value under a key that holds no child
        return p
    patches = mk(0)
    return {'nodes': nodes, 'links': [], 'root': -1, 'patches': patches, 'grammar': 'chain'}


def _general():
    g = G.graph_strategy(G.OPTIN_NAMES * 2 + ['P0', 'P1', 'PM0'], std=False, max_nodes=8)
    p = st.dictionaries(st.sampled_from(_names + ['fresh']), st.one_of(_val, st.dictionaries(st.sampled_from(_names), _val, max_size=2)), max_size=3)
    return st.builds(lambda gg, pp: dict(gg, patches=pp, grammar='general'), g, p)


_hist = st.lists(st.sampled_from(['ok_plain', 'ok_patched', 'truncated', 'boom', 'boom_patched']), max_size=3)


def strategy(tier):
    base = st.one_of(chain_case(), chain_case(), _general())
    return st.builds(lambda c, h, t: dict(c, history=h, threads=t), base, _hist, st.sampled_from([0, 0, 0, 0, 2, 3, 4]))


# ---- reference semantics -------------------------------------------------------------------------

class Undefined(Exception):
    pass


def _is_twin_optin(o):
    n = type(o).__name__
    return n.startswith('T') and n[1:] in G.OPTIN and type(o) is G.TWIN[n[1:]]


def apply_reference(tobj, patches, stats):
    """Register on the twin objects what the property says the patches do."""
    if not patches:
        return
    if not _is_twin_optin(tobj):
        return      # top-level object is not opt-in: nothing may be modified
    kind = G.FEATURES[type(tobj).__name__[1:]]['kind']
    if kind != 'dict':
        raise Undefined('patch addresses an object with non-dict remote state')
    own = dict(G.PATCHREG.get(id(tobj), {}))
    for k, val in patches.items():
        child = vars(tobj).get(k)
        if isinstance(val, dict) and _is_twin_optin(child):
            stats.add('patch_child_dict')
            if stats.__contains__('_lvl1'):
                stats.add('patch_nested2')
            stats.add('_lvl1')
            apply_reference(child, val, stats)
            stats.discard('_lvl1')
        else:
            if k not in vars(tobj):
                stats.add('patch_fresh_key')
            if _is_twin_optin(child):
                stats.add('patch_replaces_child')
            own[k] = val
    G.PATCHREG[id(tobj)] = own


def _outside_direct_tree(root):
    """opt-in objects that are not reachable from an opt-in dict-state root through direct-child attributes only"""
    objs = [o for o in G.walk(root) if G.is_optin_obj(o)]
    if not objs:
        return False
    if not G.is_optin_obj(root):
        return True
    tree = {}
    stack = [root]
    while stack:
        o = stack.pop()
        if id(o) in tree:
            continue
        tree[id(o)] = o
        if G.FEATURES[type(o).__name__]['kind'] == 'dict':
            stack.extend(v for v in vars(o).values() if G.is_optin_obj(v))
    return any(id(o) not in tree for o in objs)


def _load(data, patches):
    # every call gets its own copy of the patch dictionary: remote_pickle writes restored children back into the dict it is given
    patches = copy.deepcopy(patches)
    try:
        return ('ok', rp.loads(data, extra_kwargs=patches) if patches is not None else rp.loads(data))
    except RecursionError:
        return ('exc', 'RecursionError', '')
    except Exception as e:
        return ('exc', type(e).__name__, str(e)[:160])


_BOOM = None


def _boom_stream():
    global _BOOM
    if _BOOM is None:
        o = G.OPTIN['R9'].__new__(G.OPTIN['R9'])
        o.boom = True
        inner = G.OPTIN['R0'].__new__(G.OPTIN['R0'])
        inner.v = 1
        o.c = inner
        _BOOM = rp.dumps([G.OPTIN['R0'].__new__(G.OPTIN['R0']), o])
    return _BOOM


def run_case(case, ctx):
    out = Out()
    G.log_reset()
    root, nodes = G.build(case)
    patches = case.get('patches') or {}
    labels, n_opt = G.shape_labels(case, root)
    out.label(*labels)
    feats = c14.features(root)
    out.label(*('feat:' + f for f in feats))
    if _outside_direct_tree(root):
        out.label('feat:optin_outside_direct_tree')
    out.label('grammar:' + case.get('grammar', '?'))
    if patches:
        out.label('patch_nonempty')
    hist = case.get('history', [])
    nthreads = case.get('threads', 0)
    if any(h in ('truncated', 'boom', 'boom_patched') for h in hist):
        out.label('history_failing_before')
    if nthreads:
        out.label('threads')
    out.nontrivial = bool(patches and n_opt >= 2) or 'history_failing_before' in out.labels or bool(nthreads)
    site = c14._site(feats | ({'optin_outside_direct_tree'} if 'feat:optin_outside_direct_tree' in out.labels else set()), case)
    if 'feat:optin_outside_direct_tree' in out.labels:
        site = 'optin_outside_direct_tree' + ('+' + site if site != 'simple' else '')

    try:
        data = rp.dumps(root)
    except Exception as e:
        out.viol('dumps_raised:' + type(e).__name__, site, repr(e))
        return out

    def expected_for(p):
        troot, _ = G.build(case, twin=True)
        G.PATCHREG.clear()
        st_ = set()
        apply_reference(troot, p, st_)
        exp = G.canon(pickle.loads(pickle.dumps(troot)), twin_names=True)
        G.PATCHREG.clear()
        return exp, st_

    try:
        expected, st_ = expected_for(patches)
        out.label(*[s for s in st_ if not s.startswith('_')])
    except Undefined as u:
        out.excluded = str(u)
        return out
    except RecursionError:
        out.excluded = 'twin not picklable (recursion)'
        return out
    except Exception as e:
        out.excluded = f'twin graph not picklable by the standard module ({type(e).__name__})'
        return out

    # fresh-thread result of the judged call
    box = {}
    t = threading.Thread(target=lambda: box.setdefault('r', _load(data, patches)))
    t.start(); t.join()
    fresh = box['r']

    # same-thread history, then the judged call
    for h in hist:
        if h == 'ok_plain':
            _load(data, None)
        elif h == 'ok_patched':
            _load(data, {'zz': 1})
        elif h == 'truncated':
            _load(data[:max(1, len(data) * 2 // 3)], patches or {'zz': 2})
        elif h == 'boom':
            _load(_boom_stream(), None)
        elif h == 'boom_patched':
            _load(_boom_stream(), {'a': 1, 'c': {'v': 2}})
    res = _load(data, patches)

    def judge(res, expected, where):
        if res[0] == 'exc':
            out.viol('loads_raised:' + res[1], site, f'{where}: {res[2]}')
            return
        got = G.canon(res[1])
        if got != expected:
            out.viol('different_graph', site, f'{where}: ' + c14._diff(expected, got))
        stray = sorted(set(type(o).__name__ for o in G.walk(res[1]) if hasattr(o, '__dict__') and '__setstate__' in vars(o)))
        if stray:
            out.viol('stray_setstate_attribute', site, f'{where}: {stray}')

    judge(res, expected, 'after history ' + ','.join(hist) if hist else 'single call')
    # independence: same outcome as on a fresh thread
    if fresh[0] != res[0] or (fresh[0] == 'exc' and fresh[1] != res[1]) or (fresh[0] == 'ok' and G.canon(fresh[1]) != G.canon(res[1])):
        out.viol('history_dependent', 'history:' + ','.join(hist), f'fresh thread: {fresh[0]} {fresh[1] if fresh[0] == "exc" else ""} vs after history: {res[0]} {res[1] if res[0] == "exc" else ""}')

    if nthreads:
        # each thread uses its own patch values: scalar leaves shifted by the thread number
        def shifted(p, k):
            return {key: (shifted(v, k) if isinstance(v, dict) else (v + 10 * k if isinstance(v, int) and not isinstance(v, bool) else v)) for key, v in p.items()}
        plist = [shifted(patches, i + 1) for i in range(nthreads)]
        exps = [expected_for(p)[0] for p in plist]
        results = [None] * nthreads
        barrier = threading.Barrier(nthreads)
        inside = threading.Barrier(nthreads)
        tl = threading.local()

        def hook(obj):
            # first __setstate__ of every thread waits until all threads are in the middle of their own loads()
            if not getattr(tl, 'met', False):
                tl.met = True
                try:
                    inside.wait(timeout=1.0)
                except threading.BrokenBarrierError:
                    pass

        def work(i):
            barrier.wait()
            results[i] = _load(data, plist[i])
        G.SETSTATE_HOOK[0] = hook
        try:
            ths = [threading.Thread(target=work, args=(i,)) for i in range(nthreads)]
            for th in ths:
                th.start()
            for th in ths:
                th.join()
        finally:
            G.SETSTATE_HOOK[0] = None
        for i in range(nthreads):
            judge(results[i], exps[i], f'thread {i} of {nthreads}')
    out.obs = {'optin': n_opt, 'patches': patches, 'history': hist, 'threads': nthreads, 'result': res[0] if res[0] == 'ok' else res[:2],
               'features': sorted(feats)}
    return out


def exhaustive(tier, shard, nshards):
    # the C14 shape grammar with a fixed two-level patch
    for i, c in enumerate(c14.shapes()):
        if i % nshards == shard:
            yield dict(c, patches={'a': 1001, 'x': {'a': 1002}, 'n': 'PV'}, history=[], threads=0, grammar='shapes')


_SIB = c14._SIB
TRIGGERS = dict(c14.TRIGGERS)
_MIS = {'feat:optin_outside_direct_tree', 'feat:optin_nested_in_container_of_optin', 'feat:optin_below_plain_root'}
TRIGGERS['patch_with_optin_outside_direct_tree'] = lambda case, outd, v: bool(case.get('patches')) and bool(_MIS & set(outd['labels']))


def simplify(case):
    yield from c14.simplify(case)
    if case.get('history'):
        for i in range(len(case['history'])):
            c = dict(case); c['history'] = case['history'][:i] + case['history'][i + 1:]
            yield c
    if case.get('threads'):
        c = dict(case); c['threads'] = 0
        yield c
    p = case.get('patches') or {}
    for k in list(p):
        c = dict(case); c['patches'] = {a: b for a, b in p.items() if a != k}
        yield c
