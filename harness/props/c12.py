"""C12 - stopping the server reaps its children and every parent finds out (engine OS)."""
import os
import signal
import time

from hypothesis import strategies as st

from core import Out, bounded, Blocked, census, pid_alive, wait_gone, kill_pids, HarnessError
import injcases as IC
import vtargets

ID = 'C12'
LEVEL = 'exploration'
RULE = ('case = (0-4 children on a private server, each one of {one-shot running a cooperative loop, one-shot swallowing exceptions, idle persistent worker, busy '
        'persistent worker, already finished one-shot, persistent worker inside a context, context without workers, duplicate context registration attempt}, stop '
        '{server.terminate(timeout=10), server.terminate(timeout=10, force=False), SIGTERM to the server pid}, delay between the last constructor returning and the stop {0, 50 ms, 500 ms}; a `starting` child is a RemoteWorker constructor still running in another thread 0/5/50 ms before the stop). Oracle within 10 s '
        'of the stop: no process started for this case is left (server, backend children, context helpers); every parent-side worker answers wait(5) with True '
        'under the guard, has has_error True / result None / error WorkerTerminatedError-or-None (finished workers keep their result); WorkerTerminatedError is '
        'required only for cooperative one-shot children when every child is cooperative or finished, the stop is terminate() and the delay is 500 ms. '
        'Non-trivial = at least one live child at the stop; distinct = distinct case.')
ASSUMPTIONS = ['processes of a case are identified as the processes carrying the shard tag that did not exist before the case',
               '"able to report" is only asserted in the all-cooperative, past-start-up configuration; everywhere else error None is accepted']
SHRINK = 'greedy'
SHRINK_RUNS = 8
TIME_BUDGET = {'quick': 170, 'thorough': 1700}
CHILD = ['coop', 'swallow', 'idle_p', 'busy_p', 'finished', 'p_in_ctx', 'empty_ctx', 'dup_ctx', 'starting', 'swallow_in_ctx', 'busy_in_ctx']
REQUIRED = {'quick': {'child:' + c: 15 for c in CHILD}, 'thorough': {'child:' + c: 60 for c in CHILD}}
REQUIRED['quick'].update({'stop:sigterm': 40, 'stop:terminate': 40, 'stop:terminate_noforce': 15, 'live_children>=2': 40, 'stop:terminate_short': 15, 'sigterm_during_shutdown': 8})


def examples(tier):
    return 400 if tier == 'quick' else 3000


def shards(tier):
    return 16


def strategy(tier):
    return st.fixed_dictionaries({
        'children': st.lists(st.sampled_from(CHILD), max_size=4),
        # terminate_short: the force stage of terminate() SIGTERMs the server while it is still stopping its children one by one;
        # terminate_then_sigterm: an impatient supervisor does the same after a generated delay
        'stop': st.sampled_from(['terminate', 'terminate', 'sigterm', 'sigterm', 'terminate_noforce', 'terminate_short', 'terminate_then_sigterm']),
        'sigterm_after': st.sampled_from([0.01, 0.03, 0.1, 0.3, 0.7, 1.2]),
        'delay': st.sampled_from([0, 0.05, 0.5]),
    })


def run_case(case, ctx):
    from pyworkers.remote_server import spawn_server
    from pyworkers.remote import RemoteWorker
    from pyworkers.persistent_remote import PersistentRemoteWorker
    from pyworkers.remote_context import RemoteContext
    from pyworkers.worker import WorkerTerminatedError
    out = Out()
    before = set(census(ctx.tag))
    try:
        srv = bounded(spawn_server, 30, ('127.0.0.1', 0))
    except BaseException as e:
        raise HarnessError('cannot start a server: ' + repr(e))
    kids = []
    ctxs = []
    escape = os.path.join(ctx.scratch, IC.fresh_name(ctx, 'c12') + '.escape')
    out.label('stop:' + case['stop'])
    try:
        next_ctx = 1
        starting = []
        for c in case['children']:
            out.label('child:' + c)
            try:
                if c == 'starting':
                    # a worker whose constructor is still running (in another thread) when the server is stopped
                    import threading
                    box = {}

                    def ctor(box=box):
                        try:
                            box['w'] = RemoteWorker(vtargets.coop_loop, args=[100000], host=srv.addr)
                        except BaseException as e:
                            box['e'] = e
                    th = threading.Thread(target=ctor, daemon=True)
                    starting.append((th, box))
                    continue
                if c == 'coop':
                    w = bounded(RemoteWorker, 25, vtargets.coop_loop, args=[100000], host=srv.addr)
                elif c == 'swallow':
                    w = bounded(RemoteWorker, 25, vtargets.swallow_everything, args=[escape], host=srv.addr)
                elif c == 'idle_p':
                    w = bounded(PersistentRemoteWorker, 25, vtargets.echo_item, host=srv.addr)
                elif c == 'busy_p':
                    w = bounded(PersistentRemoteWorker, 25, vtargets.coop_loop, host=srv.addr)
                    w.enqueue(100000)
                elif c == 'finished':
                    w = bounded(RemoteWorker, 25, vtargets.quick_return, args=[7], host=srv.addr)
                    bounded(w.wait, 20, 10)
                elif c in ('p_in_ctx', 'empty_ctx', 'dup_ctx', 'swallow_in_ctx', 'busy_in_ctx'):
                    tgt = {'swallow_in_ctx': vtargets.swallow_everything, 'busy_in_ctx': vtargets.coop_loop}.get(c, vtargets.echo_item)
                    rc = bounded(RemoteContext, 25, next_ctx, host=srv.addr, target=tgt)
                    ctxs.append(rc)
                    w = None
                    if c == 'p_in_ctx':
                        w = bounded(PersistentRemoteWorker, 25, None, context=next_ctx, host=srv.addr)
                    elif c in ('swallow_in_ctx', 'busy_in_ctx'):
                        # a busy worker inside a context (uncooperative / cooperative) plus an idle sibling in the same context
                        w = bounded(PersistentRemoteWorker, 25, None, context=next_ctx, host=srv.addr)
                        w.enqueue(escape if c == 'swallow_in_ctx' else 100000)
                        sib = bounded(PersistentRemoteWorker, 25, None, context=next_ctx, host=srv.addr)
                        kids.append((c + ':idle_sibling', sib))
                    elif c == 'dup_ctx':
                        try:
                            bounded(RemoteContext, 25, next_ctx, host=srv.addr, target=vtargets.echo_item)
                            out.viol('duplicate_context_accepted', 'dup_ctx', 'second registration of the same context id did not raise')
                        except ValueError:
                            pass
                    next_ctx += 1
                    if w is None:
                        continue
                kids.append((c, w))
            except Blocked:
                out.excluded = f'could not create child {c}: constructor blocked'
                return out
            except BaseException as e:
                out.excluded = f'could not create child {c}: {type(e).__name__}'
                return out
        live = [k for k in kids if k[0] != 'finished']
        if len(live) >= 2:
            out.label('live_children>=2')
        out.nontrivial = bool(live) or bool(ctxs)
        mine = [p for p in census(ctx.tag) if p not in before]
        for th, box in starting:
            th.start()
        if starting:
            time.sleep(case['delay'] / 10.0)      # 0, 5 or 50 ms into the start-up
        elif case['delay']:
            time.sleep(case['delay'])
        t0 = time.monotonic()
        site = case['stop'] + ':' + '+'.join(sorted(set(case['children']))) if case['children'] else case['stop'] + ':no_children'
        if case['stop'] in ('terminate', 'terminate_noforce'):
            try:
                r = bounded(srv.terminate, 40, timeout=10) if case['stop'] == 'terminate' else bounded(srv.terminate, 40, timeout=10, force=False)
                if r is not True:
                    out.viol('server_terminate_false', site, repr(r))
            except Blocked:
                out.viol('server_terminate_blocked', site, 'server.terminate(timeout=10) did not return within 40 s')
            except BaseException as e:
                out.viol('server_terminate_raised:' + type(e).__name__, site, str(e)[:150])
        elif case['stop'] == 'terminate_short':
            try:
                bounded(srv.terminate, 40, timeout=0.5)
            except Blocked:
                out.viol('server_terminate_blocked', site, 'server.terminate(timeout=0.5) did not return within 40 s')
            except BaseException as e:
                out.viol('server_terminate_raised:' + type(e).__name__, site, str(e)[:150])
        elif case['stop'] == 'terminate_then_sigterm':
            import threading
            spid = srv.pid
            th_ = threading.Thread(target=lambda: bounded(srv.terminate, 40, timeout=10), daemon=True)
            th_.start()
            time.sleep(case.get('sigterm_after', 0.3))
            if pid_alive(spid):
                out.label('sigterm_during_shutdown')
                try:
                    os.kill(spid, signal.SIGTERM)
                except ProcessLookupError:
                    pass
            th_.join(45)
            if th_.is_alive():
                out.viol('server_terminate_blocked', site, 'server.terminate(timeout=10) did not return within 45 s')
        else:
            os.kill(srv.pid, signal.SIGTERM)
        # ---- processes
        mine = sorted(set(mine) | set(p for p in census(ctx.tag) if p not in before))
        left = wait_gone(mine, 10)
        if left:
            kinds = []
            for p in left:
                try:
                    with open(f'/proc/{p}/cmdline', 'rb') as f:
                        kinds.append(f.read().replace(b'\0', b' ')[-60:].decode(errors='replace'))
                except OSError:
                    pass
            out.viol('process_left_after_server_stop', site, f'{len(left)} process(es) of this server still alive 10 s after the stop: {kinds[:3]}')
            kill_pids(left)
        # ---- constructors that were running during the stop: must return or raise, a returned worker must end up dead
        for th, box in starting:
            th.join(30)
            if th.is_alive():
                out.viol('constructor_hangs_when_server_stops_during_startup', case['stop'] + ':starting', 'RemoteWorker() still blocked 30 s after the server was stopped')
            elif 'w' in box:
                kids.append(('coop_started_during_stop', box['w']))
        # ---- parents
        all_coop = all(c in ('coop', 'finished') for c in case['children'])
        time.sleep(0.05)
        for c, w in kids:
            wsite = f'{case["stop"]}:{c}'
            try:
                ok = bounded(w.wait, 25, 5)
            except Blocked:
                out.viol('parent_wait_blocked', wsite, 'wait(5) on a worker of the stopped server blocked')
                continue
            except BaseException as e:
                out.viol('parent_wait_raised:' + type(e).__name__, wsite, str(e)[:150])
                continue
            if ok is not True:
                out.viol('parent_not_dead', wsite, f'wait(5) returned {ok!r} after the server was stopped')
                continue
            try:
                he, res, err = w.has_error, w.result, w.error
            except BaseException as e:
                out.viol('parent_accessor_raised:' + type(e).__name__, wsite, str(e)[:150])
                continue
            if c == 'finished':
                if he is not False or res != ('ok', 7):
                    out.viol('finished_worker_outcome_changed', wsite, f'{(he, res, err)!r}')
                continue
            if he is not True or res is not None:
                out.viol('parent_outcome_not_error', wsite, f'(has_error, result, error) = {(he, res, err)!r}')
            elif err is not None and not isinstance(err, WorkerTerminatedError):
                out.viol('parent_wrong_error', wsite, repr(err))
            elif err is None and c == 'coop' and all_coop and case['stop'] in ('terminate', 'terminate_noforce') and case['delay'] >= 0.5:
                out.viol('terminated_error_not_reported', wsite, 'cooperative child, graceful server.terminate(), yet error is None')
        out.obs = {'children': case['children'], 'stop': case['stop'], 'delay': case['delay'], 'elapsed': round(time.monotonic() - t0, 2), 'procs': len(mine)}
    finally:
        try:
            open(escape, 'w').close()
        except OSError:
            pass
        for c, w in kids:
            try:
                bounded(w.terminate, 8, 0.5)
            except BaseException:
                pass
        try:
            if srv.pid and pid_alive(srv.pid):
                os.kill(srv.pid, signal.SIGKILL)
        except Exception:
            pass
        kill_pids([p for p in census(ctx.tag) if p not in before])
        try:
            os.unlink(escape)
        except OSError:
            pass
    return out


def simplify(case):
    ch = case['children']
    for i in range(len(ch)):
        yield dict(case, children=ch[:i] + ch[i + 1:])
    if case['delay']:
        yield dict(case, delay=0)


TRIGGERS = {}
