"""CLI: check <ID> [--tier quick|thorough] [--replay FILE] [--seed N] [--shards N]  (internal: --shard i/N --out FILE)"""
import argparse
import importlib
import os
import sys

HERE = os.path.dirname(os.path.abspath(__file__))
sys.path.insert(0, HERE)

import core  # noqa: E402


def main():
    ap = argparse.ArgumentParser()
    ap.add_argument('prop')
    ap.add_argument('--tier', default=os.environ.get('VERIF_TIER') or 'quick', choices=['quick', 'thorough'])
    ap.add_argument('--replay')
    ap.add_argument('--seed', type=int, default=None)
    ap.add_argument('--shards', type=int, default=None)
    ap.add_argument('--shard')
    ap.add_argument('--out')
    ap.add_argument('--fuzz', action='store_true')
    a = ap.parse_args()
    seed = a.seed
    if seed is None:
        try:
            seed = int(os.environ.get('VERIF_SEED', '1'))
        except ValueError:
            seed = 1

    if not a.shard:
        # parent / replay mode: re-exec with the proper environment so that the code under test
        # comes from the tree named by VERIF_REPO (default /repo) and PYTHONHASHSEED is pinned
        if os.environ.get('VERIF_ENV_READY') != '1':
            env = core.child_env({'VERIF_ENV_READY': '1'})
            import uuid
            import tempfile
            env['VERIF_TAG'] = uuid.uuid4().hex
            # the parent re-runs single cases when it shrinks / replays: give it an injection directory too
            env['VERIF_INJECT_DIR'] = tempfile.mkdtemp(prefix='verif-inject-parent-')
            env['VERIF_INJECT_SPIN'] = '0.6'
            os.execve(sys.executable, [sys.executable] + sys.argv, env)

    sys.path.insert(0, core.REPO)
    import logging
    # keep pyworkers' log calls live (they are part of the code under test) but silent
    logging.getLogger('pyworkers').addHandler(logging.NullHandler())
    logging.getLogger('pyworkers').propagate = False
    try:
        if a.fuzz:
            # coverage-guided shard: the code under test is imported under atheris' bytecode instrumentation (the harness is not)
            sys.path.append(os.path.join(core.VERIF, '.deps'))
            import atheris
            with atheris.instrument_imports(include=['pyworkers']):
                import pyworkers.utils, pyworkers.remote_pickle, pyworkers.pool, pyworkers.worker  # noqa: F401,E401
                mod = importlib.import_module('props.' + a.prop.lower())
        else:
            mod = importlib.import_module('props.' + a.prop.lower())
    except ImportError as e:
        print(f'HARNESS-ERROR: cannot load property module for {a.prop}: {e}', file=sys.stderr)
        return 2

    if a.shard:
        i, n = a.shard.split('/')
        if a.fuzz:
            core.run_fuzz_shard(mod, a.tier, seed, int(i), int(n), a.out)
            return 0
        core.run_shard(mod, a.tier, seed, int(i), int(n), a.out)
        return 0
    if a.replay:
        try:
            return core.run_replay(mod, a.replay, a.tier, seed)
        except Exception:
            import traceback
            traceback.print_exc()
            return 2
    try:
        return core.run_parent(mod, a.tier, seed, a.shards)
    except Exception:
        import traceback
        traceback.print_exc()
        return 2


if __name__ == '__main__':
    code = main()
    d = os.environ.get('VERIF_INJECT_DIR', '')
    if 'verif-inject-parent-' in d:
        import shutil
        shutil.rmtree(d, ignore_errors=True)
    sys.stdout.flush()
    sys.stderr.flush()
    os._exit(code)
