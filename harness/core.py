"""Shared runner machinery: outcomes, statistics, shards, evidence, known findings.

See DESIGN.md section 2.  A property module (harness/props/cXX.py) provides

    ID, LEVEL, RULE, ASSUMPTIONS
    examples(tier) -> int            number of Hypothesis-generated cases (total, all shards)
    shards(tier) -> int              number of shard processes
    strategy(tier) -> SearchStrategy producing JSON-serialisable case dicts   (optional)
    exhaustive(tier, i, n) -> iterable of cases for shard i of n             (optional)
    run_case(case, ctx) -> Out
    setup_shard(ctx) / teardown_shard(ctx)                                   (optional)
    REQUIRED = {tier: {label: min_count}}                                    (optional)
    TRIGGERS = {name: predicate(case, out_dict) -> bool}                     (optional)
    simplify(case) -> iterable of smaller candidate cases                    (optional)
    SHRINK = "hypothesis" | "greedy" | "none"
    TIME_BUDGET = {tier: seconds}   per-shard soft budget; hit => inconclusive, never a violation
"""
import hashlib
import json
import os
import signal
import subprocess
import sys
import tempfile
import threading
import time
import traceback
import shutil
from collections import Counter

VERIF = os.path.dirname(os.path.dirname(os.path.abspath(__file__)))
HARNESS = os.path.join(VERIF, 'harness')
REPO = os.environ.get('VERIF_REPO', '/repo')
PY = sys.executable


class HarnessError(Exception):
    pass


# --------------------------------------------------------------------------
# outcome of one case
# --------------------------------------------------------------------------

class Out:
    __slots__ = ('violations', 'labels', 'nontrivial', 'key', 'obs', 'excluded')

    def __init__(self):
        self.violations = []
        self.labels = []
        self.nontrivial = False
        self.key = None
        self.obs = {}
        self.excluded = None     # reason string => case did not count (precondition)

    def viol(self, symptom, site='', detail=None):
        self.violations.append({'symptom': symptom, 'site': site, 'detail': _short(detail)})

    def label(self, *names):
        self.labels.extend(names)

    def as_dict(self):
        return {'violations': self.violations, 'labels': sorted(set(self.labels)), 'nontrivial': self.nontrivial,
                'obs': self.obs, 'excluded': self.excluded}


def _short(x, n=600):
    if x is None:
        return None
    s = x if isinstance(x, str) else repr(x)
    return s if len(s) <= n else s[:n] + '...'


def case_hash(obj):
    return hashlib.blake2b(json.dumps(obj, sort_keys=True, default=repr).encode(), digest_size=8).hexdigest()


# --------------------------------------------------------------------------
# hang guard
# --------------------------------------------------------------------------

class Blocked(Exception):
    """fn did not return within the guard limit."""


def bounded(fn, limit, *args, **kwargs):
    """Run fn in a daemon thread; return its value, re-raise its exception, raise Blocked after `limit` s."""
    box = {}

    def runner():
        try:
            box['v'] = fn(*args, **kwargs)
        except BaseException as e:  # noqa
            box['e'] = e

    t = threading.Thread(target=runner, daemon=True, name='verif-bounded')
    t.start()
    t.join(limit)
    if t.is_alive():
        raise Blocked(f'{getattr(fn, "__name__", fn)} still running after {limit}s')
    if 'e' in box:
        raise box['e']
    return box.get('v')


# --------------------------------------------------------------------------
# process census by environment tag
# --------------------------------------------------------------------------

def census(tag, exclude=()):
    """pids of live (non-zombie) processes whose environment contains VERIF_TAG=<tag>."""
    needle = ('VERIF_TAG=' + tag).encode()
    me = os.getpid()
    out = []
    for d in os.listdir('/proc'):
        if not d.isdigit():
            continue
        pid = int(d)
        if pid == me or pid in exclude:
            continue
        try:
            with open(f'/proc/{pid}/environ', 'rb') as f:
                env = f.read()
            if needle not in env.split(b'\0'):
                continue
            with open(f'/proc/{pid}/stat', 'rb') as f:
                st = f.read()
            state = st[st.rindex(b')') + 2:st.rindex(b')') + 3]
            if state in (b'Z', b'X'):
                continue
            with open(f'/proc/{pid}/cmdline', 'rb') as f:
                cmd = f.read()
            if b'resource_tracker' in cmd:
                continue
            out.append(pid)
        except (FileNotFoundError, ProcessLookupError, PermissionError, ValueError):
            continue
    return sorted(out)


def pid_alive(pid):
    """True iff pid exists and is not a zombie."""
    try:
        with open(f'/proc/{pid}/stat', 'rb') as f:
            st = f.read()
        state = st[st.rindex(b')') + 2:st.rindex(b')') + 3]
        return state not in (b'Z', b'X')
    except (FileNotFoundError, ProcessLookupError, ValueError):
        return False


def wait_gone(pids, limit):
    """Wait until none of pids is alive; returns list of survivors."""
    end = time.monotonic() + limit
    pids = list(pids)
    while True:
        left = [p for p in pids if pid_alive(p)]
        if not left or time.monotonic() > end:
            return left
        time.sleep(0.02)


def kill_pids(pids):
    for p in pids:
        try:
            os.kill(p, signal.SIGKILL)
        except (ProcessLookupError, PermissionError):
            pass


# --------------------------------------------------------------------------
# known findings
# --------------------------------------------------------------------------

def load_findings(prop_id):
    path = os.path.join(VERIF, 'known_findings.json')
    if not os.path.exists(path):
        return []
    with open(path) as f:
        data = json.load(f)
    return [e for e in data.get('findings', []) if e.get('property') == prop_id]


def match_finding(findings, mod, case, out, v):
    import re
    for e in findings:
        if e.get('status') != 'open':
            continue
        if not re.fullmatch(e['symptom'], v['symptom']):
            continue
        if 'site' in e and e['site'] is not None and not re.fullmatch(e['site'], v['site'] or ''):
            continue
        trig = e.get('trigger')
        if trig:
            pred = getattr(mod, 'TRIGGERS', {}).get(trig)
            if pred is None:
                raise HarnessError(f'known finding {e["id"]} names unknown trigger {trig}')
            if not pred(case, out.as_dict(), v):
                continue
        return e
    return None


# --------------------------------------------------------------------------
# per-shard statistics
# --------------------------------------------------------------------------

class Stats:
    def __init__(self):
        self.evaluations = 0
        self.labels = Counter()
        self.nontrivial = set()
        self.samples = []
        self.nt_samples = []
        self.excluded = Counter()
        self.known_hits = Counter()
        self.unlisted = {}      # sig -> {'count': n, 'cases': [..]}
        self.harness_errors = []
        self.skipped_budget = 0
        self.extra = Counter()  # free-form additive counters (e.g. traces_validated_against_impl)

    def record(self, mod, findings, case, out):
        if out.excluded:
            self.excluded[out.excluded] += 1
            return
        self.evaluations += 1
        for l in set(out.labels):
            self.labels[l] += 1
        if out.nontrivial:
            k = out.key if out.key is not None else case
            self.nontrivial.add(case_hash(k))
        entry = {'case': case, 'outcome': out.obs}
        if len(self.samples) < 3:
            self.samples.append(entry)
        elif out.nontrivial and len(self.nt_samples) < 5 and self.evaluations % 7 == 0:
            self.nt_samples.append(entry)
        for v in out.violations:
            e = match_finding(findings, mod, case, out, v)
            if e is not None:
                self.known_hits[e['id']] += 1
                continue
            sig = v['symptom'] + ' @ ' + (v['site'] or '')
            slot = self.unlisted.setdefault(sig, {'count': 0, 'cases': [], 'symptom': v['symptom'], 'site': v['site']})
            slot['count'] += 1
            if len(slot['cases']) < 3:
                slot['cases'].append({'case': case, 'detail': v['detail'], 'obs': out.obs})

    def dump(self):
        return {
            'evaluations': self.evaluations, 'labels': dict(self.labels), 'nontrivial': sorted(self.nontrivial),
            'samples': self.samples + self.nt_samples, 'excluded': dict(self.excluded),
            'known_hits': dict(self.known_hits), 'unlisted': self.unlisted, 'harness_errors': self.harness_errors[:5],
            'skipped_budget': self.skipped_budget, 'extra': dict(self.extra),
        }


class Ctx:
    """Per-shard context handed to run_case."""

    def __init__(self, tier, seed, shard, nshards, scratch):
        self.tier = tier
        self.seed = seed
        self.shard = shard
        self.nshards = nshards
        self.scratch = scratch
        self.stats = None
        self.data = {}
        self.case_no = 0
        self.tag = os.environ.get('VERIF_TAG', '')


def shard_seed(seed, prop_id, shard):
    h = hashlib.blake2b(f'{seed}/{prop_id}/{shard}'.encode(), digest_size=4).digest()
    return int.from_bytes(h, 'big')


def hyp_settings(n, shrink=False):
    from hypothesis import settings, HealthCheck, Phase
    phases = [Phase.generate, Phase.shrink] if shrink else [Phase.generate]
    return settings(max_examples=n, database=None, deadline=None, derandomize=False, report_multiple_bugs=False,
                    suppress_health_check=list(HealthCheck), phases=phases)


def run_one(mod, case, ctx):
    """run_case with harness-error capture."""
    ctx.case_no += 1
    out = mod.run_case(case, ctx)
    if not isinstance(out, Out):
        raise HarnessError('run_case must return Out')
    return out


def run_shard(mod, tier, seed, shard, nshards, out_path):
    import hypothesis
    from hypothesis import given
    os.environ['VERIF_SEED_EFFECTIVE'] = str(seed)
    scratch = tempfile.mkdtemp(prefix=f'verif-{mod.ID}-{shard}-')
    ctx = Ctx(tier, seed, shard, nshards, scratch)
    stats = Stats()
    ctx.stats = stats
    findings = load_findings(mod.ID)
    t0 = time.monotonic()
    budget = getattr(mod, 'TIME_BUDGET', {}).get(tier, 3600)
    status = 'ok'
    try:
        if hasattr(mod, 'setup_shard'):
            mod.setup_shard(ctx)

        def do(case):
            if time.monotonic() - t0 > budget:
                stats.skipped_budget += 1
                return
            try:
                out = run_one(mod, case, ctx)
            except HarnessError:
                raise
            except Exception:
                stats.harness_errors.append({'case': case, 'tb': traceback.format_exc()})
                if len(stats.harness_errors) > 20:
                    raise HarnessError('too many harness errors')
                return
            stats.record(mod, findings, case, out)

        # 1. committed regression cases (shard 0 only)
        if shard == 0:
            rdir = os.path.join(VERIF, 'regress', mod.ID)
            if os.path.isdir(rdir):
                for fn in sorted(os.listdir(rdir)):
                    if fn.endswith('.json'):
                        with open(os.path.join(rdir, fn)) as f:
                            rc = json.load(f)
                        do(rc['case'])
                        stats.extra['regression_cases'] += 1
        # 2. exhaustive / enumerated part
        if hasattr(mod, 'exhaustive'):
            for case in mod.exhaustive(tier, shard, nshards):
                do(case)
                stats.extra['enumerated_cases'] += 1
        # 3. generated part
        n = mod.examples(tier) // nshards if hasattr(mod, 'strategy') else 0
        if n > 0:
            sseed = shard_seed(seed, mod.ID, shard)

            @hypothesis.seed(sseed)
            @hyp_settings(n)
            @given(mod.strategy(tier))
            def body(case):
                do(case)
                stats.extra['generated_cases'] += 1

            body()
        if hasattr(mod, 'finish_shard'):
            mod.finish_shard(ctx)
    except BaseException:
        status = 'error'
        stats.harness_errors.append({'case': None, 'tb': traceback.format_exc()})
    finally:
        try:
            if hasattr(mod, 'teardown_shard'):
                mod.teardown_shard(ctx)
        except BaseException:
            stats.harness_errors.append({'case': None, 'tb': 'teardown: ' + traceback.format_exc()})
        shutil.rmtree(scratch, ignore_errors=True)
    d = stats.dump()
    d['status'] = status
    d['wall_s'] = time.monotonic() - t0
    with open(out_path + '.tmp', 'w') as f:
        json.dump(d, f, default=repr)
    os.replace(out_path + '.tmp', out_path)


# --------------------------------------------------------------------------
# coverage-guided stage (atheris / libFuzzer driving the module's Hypothesis strategy)
# --------------------------------------------------------------------------

def fuzz_plan(mod, tier):
    """(number of fuzz shards, libFuzzer runs per shard) - modules opt in with FUZZ = {tier: (shards, runs)}."""
    return getattr(mod, 'FUZZ', {}).get(tier, (0, 0))


def _fix_bytestring_provider():
    """Hypothesis 6.168: BytestringProvider.draw_integer draws `bits` bits and rejects until min <= value <= max WITHOUT adding min_value,
    so integers(4, 5) (one bit: 0 or 1) rejects for ever and every input that reaches such a draw (fisher_yates_shuffle in one_of /
    sampled_from chains does) is an overrun - the C10 strategy accepted 0 of 6000 inputs.  Offset the draw by min_value."""
    from hypothesis.internal.conjecture.providers import BytestringProvider

    def draw_integer(self, min_value=None, max_value=None, *, weights=None, shrink_towards=0):
        if min_value is None and max_value is None:
            min_value, max_value = -(2 ** 127), 2 ** 127 - 1
        elif min_value is None:
            min_value = max_value - 2 ** 64
        elif max_value is None:
            max_value = min_value + 2 ** 64
        if min_value == max_value:
            return min_value
        span = max_value - min_value
        bits = span.bit_length()
        value = self._draw_bits(bits)
        while value > span:
            value = self._draw_bits(bits)
        return min_value + value

    BytestringProvider.draw_integer = draw_integer


def run_fuzz_shard(mod, tier, seed, shard, nshards, out_path):
    """libFuzzer mutates the byte string from which Hypothesis draws the case (`fuzz_one_input`), guided by the branch coverage of
    the instrumented pyworkers modules (main.py imports the module under `atheris.instrument_imports`).  Same run_case, same judge,
    same statistics as the generated stage; violations are collected, never raised, so the campaign does not stop at the first one.
    libFuzzer ends the process without running Python's exit handlers, so the result file is written from inside the callback when
    the planned number of runs (or the time budget) is reached."""
    import atheris
    import hypothesis
    from hypothesis import given
    scratch = tempfile.mkdtemp(prefix=f'verif-{mod.ID}-fuzz{shard}-')
    ctx = Ctx(tier, seed, shard, nshards, scratch)
    stats = Stats()
    ctx.stats = stats
    findings = load_findings(mod.ID)
    t0 = time.monotonic()
    budget = getattr(mod, 'TIME_BUDGET', {}).get(tier, 3600)
    runs = fuzz_plan(mod, tier)[1]
    if hasattr(mod, 'setup_shard'):
        mod.setup_shard(ctx)
    state = {'inputs': 0}

    def finish(status):
        try:
            if hasattr(mod, 'teardown_shard'):
                mod.teardown_shard(ctx)
        except BaseException:
            stats.harness_errors.append({'case': None, 'tb': 'teardown: ' + traceback.format_exc()})
        stats.extra['coverage_guided_inputs'] += state['inputs']
        d = stats.dump()
        d['status'] = status
        d['wall_s'] = time.monotonic() - t0
        with open(out_path + '.tmp', 'w') as f:
            json.dump(d, f, default=repr)
        os.replace(out_path + '.tmp', out_path)
        shutil.rmtree(scratch, ignore_errors=True)
        sys.stdout.flush()
        sys.stderr.flush()
        os._exit(0)

    @hyp_settings(1)
    @given(mod.strategy(tier))
    def body(case):
        try:
            out = run_one(mod, case, ctx)
        except HarnessError:
            raise
        except Exception:
            stats.harness_errors.append({'case': case, 'tb': traceback.format_exc()})
            return
        stats.record(mod, findings, case, out)
        stats.extra['coverage_guided_cases'] += 1

    _fix_bytestring_provider()
    fuzz_one = body.hypothesis.fuzz_one_input

    def target(data):
        state['inputs'] += 1
        try:
            fuzz_one(data)
        except BaseException:
            stats.harness_errors.append({'case': None, 'tb': traceback.format_exc()})
            finish('error')
        if state['inputs'] >= runs or time.monotonic() - t0 > budget:
            finish('ok')

    corpus = os.path.join(scratch, 'corpus')
    os.makedirs(corpus)
    lseed = shard_seed(seed, mod.ID + '/fuzz', shard) or 1
    # starting corpus: byte strings long enough for Hypothesis to draw a whole case from (an empty corpus only produces inputs the
    # strategy runs out of before the code under test is reached, so libFuzzer sees no coverage to climb); a function of the seed
    import random
    rnd = random.Random(lseed)
    for k in range(48):
        with open(os.path.join(corpus, f'seed{k:02d}'), 'wb') as f:
            f.write(rnd.randbytes(rnd.choice([256, 1024, 4096, 12000])))
    argv = [sys.argv[0], f'-seed={lseed}', f'-runs={runs + 1000}', '-max_len=16384', '-len_control=0', '-print_final_stats=0',
            '-verbosity=1', '-rss_limit_mb=4096', corpus]
    atheris.Setup(argv, target, enable_python_coverage=True)
    atheris.Fuzz()
    finish('ok')      # not reached in practice


# --------------------------------------------------------------------------
# shrinking
# --------------------------------------------------------------------------

def has_sig(mod, case, ctx, symptom, site):
    try:
        out = run_one(mod, case, ctx)
    except HarnessError:
        raise
    except Exception:
        return False
    return any(v['symptom'] == symptom and (v['site'] or '') == (site or '') for v in out.violations)


def shrink_case(mod, tier, case, symptom, site, ctx):
    """Return a (possibly) smaller case with the same signature.  Bounded effort."""
    mode = getattr(mod, 'SHRINK', 'greedy')
    if mode == 'none':
        return case
    if mode == 'hypothesis' and hasattr(mod, 'strategy'):
        import hypothesis
        from hypothesis import given
        last = {}

        class Found(Exception):
            pass

        # start from the found example via @example so shrinking is anchored on a real failure
        @hypothesis.seed(0)
        @hyp_settings(getattr(mod, 'SHRINK_EXAMPLES', 300), shrink=True)
        @given(mod.strategy(tier))
        def body(c):
            if has_sig(mod, c, ctx, symptom, site):
                last['case'] = c
                raise Found()

        try:
            body()
        except Found:
            pass
        except Exception:
            pass
        best = last.get('case')
        if best is not None and len(json.dumps(best, default=repr)) <= len(json.dumps(case, default=repr)):
            case = best
    if hasattr(mod, 'simplify'):
        runs = 0
        limit = getattr(mod, 'SHRINK_RUNS', 60)
        improved = True
        while improved and runs < limit:
            improved = False
            for cand in mod.simplify(case):
                runs += 1
                if runs > limit:
                    break
                if has_sig(mod, cand, ctx, symptom, site):
                    case = cand
                    improved = True
                    break
    return case


# --------------------------------------------------------------------------
# parent: spawn shards, merge, report
# --------------------------------------------------------------------------

def child_env(extra=None):
    env = dict(os.environ)
    pp = [REPO, HARNESS, os.path.join(HARNESS, 'site')]
    if env.get('PYTHONPATH'):
        pp.append(env['PYTHONPATH'])
    env['PYTHONPATH'] = os.pathsep.join(pp)
    env['PYTHONHASHSEED'] = '0'
    env['PYTHONDONTWRITEBYTECODE'] = '1'
    env.setdefault('PYWORKERS_VERIF', '1')
    if extra:
        env.update(extra)
    return env


def run_parent(mod, tier, seed, nshards_override=None):
    t0 = time.monotonic()
    nshards = nshards_override or mod.shards(tier)
    tmp = tempfile.mkdtemp(prefix=f'verif-{mod.ID}-parent-')
    procs = []
    import uuid
    for i in range(nshards):
        outp = os.path.join(tmp, f'shard{i}.json')
        logp = os.path.join(tmp, f'shard{i}.log')
        tag = uuid.uuid4().hex
        logf = open(logp, 'wb')
        extra_env = {'VERIF_TAG': tag}
        if getattr(mod, 'INJECT', False):
            injdir = os.path.join(tmp, f'inject{i}')
            os.makedirs(injdir, exist_ok=True)
            extra_env['VERIF_INJECT_DIR'] = injdir
            extra_env['VERIF_INJECT_SPIN'] = '0.6'
        p = subprocess.Popen([PY, os.path.join(HARNESS, 'main.py'), mod.ID, '--tier', tier, '--seed', str(seed),
                              '--shard', f'{i}/{nshards}', '--out', outp],
                             stdin=subprocess.DEVNULL, stdout=logf, stderr=subprocess.STDOUT,
                             env=child_env(extra_env), start_new_session=True, cwd=VERIF)
        procs.append((p, outp, logp, tag, logf))
    # coverage-guided shards (modules that opt in with FUZZ; skipped, and said so in the evidence, when atheris cannot be imported)
    nfuzz, fuzz_runs = fuzz_plan(mod, tier)
    fuzz_note = None
    fuzz_logs = []
    if nfuzz:
        probe = subprocess.run([PY, '-c', 'import sys; sys.path.append(sys.argv[1]); import atheris', os.path.join(VERIF, '.deps')],
                               capture_output=True, text=True)
        if probe.returncode != 0:
            fuzz_note = 'skipped: atheris not importable (' + probe.stderr.strip().splitlines()[-1][:200] + ')'
            nfuzz = 0
    for j in range(nfuzz):
        i = nshards + j
        outp = os.path.join(tmp, f'shard{i}.json')
        logp = os.path.join(tmp, f'shard{i}.log')
        tag = uuid.uuid4().hex
        logf = open(logp, 'wb')
        p = subprocess.Popen([PY, os.path.join(HARNESS, 'main.py'), mod.ID, '--tier', tier, '--seed', str(seed),
                              '--shard', f'{j}/{nfuzz}', '--out', outp, '--fuzz'],
                             stdin=subprocess.DEVNULL, stdout=logf, stderr=subprocess.STDOUT,
                             env=child_env({'VERIF_TAG': tag}), start_new_session=True, cwd=VERIF)
        procs.append((p, outp, logp, tag, logf))
        fuzz_logs.append(logp)
    hard = getattr(mod, 'TIME_BUDGET', {}).get(tier, 3600) * 1.5 + 120
    deadline = time.monotonic() + hard
    merged = None
    errors = []
    shard_results = []
    for p, outp, logp, tag, logf in procs:
        try:
            p.wait(max(1, deadline - time.monotonic()))
        except subprocess.TimeoutExpired:
            errors.append(f'shard timed out after {hard}s (log {logp})')
        finally:
            try:
                os.killpg(p.pid, signal.SIGKILL)
            except (ProcessLookupError, PermissionError):
                pass
            logf.close()
        # stray children that left the group
        kill_pids(census(tag))
        if os.path.exists(outp):
            with open(outp) as f:
                shard_results.append(json.load(f))
        else:
            tail = ''
            try:
                with open(logp, 'rb') as f:
                    tail = f.read()[-3000:].decode(errors='replace')
            except OSError:
                pass
            errors.append(f'shard produced no result (exit {p.returncode}); log tail:\n{tail}')

    ev = Counter()
    labels = Counter()
    nontrivial = set()
    samples = []
    excluded = Counter()
    known_hits = Counter()
    unlisted = {}
    extra = Counter()
    skipped = 0
    for r in shard_results:
        ev['evaluations'] += r['evaluations']
        labels.update(r['labels'])
        nontrivial.update(r['nontrivial'])
        if len(samples) < 8:
            samples.extend(r['samples'][:max(1, 8 // max(1, len(shard_results)))])
        excluded.update(r['excluded'])
        known_hits.update(r['known_hits'])
        extra.update(r['extra'])
        skipped += r['skipped_budget']
        for sig, slot in r['unlisted'].items():
            s = unlisted.setdefault(sig, {'count': 0, 'cases': [], 'symptom': slot['symptom'], 'site': slot['site']})
            s['count'] += slot['count']
            s['cases'].extend(slot['cases'])
        for he in r['harness_errors']:
            errors.append('harness error in shard:\n' + str(he['tb']) + '\ncase: ' + str(_short(he['case'], 400)))

    findings = load_findings(mod.ID)
    lines = []
    exit_code = 0
    # known findings
    for e in findings:
        if e.get('status') == 'open' and known_hits.get(e['id']):
            lines.append(f'KNOWN-FINDING: property={mod.ID} {e["id"]}: {e["what"]} (hit {known_hits[e["id"]]}x this run)')
    # unlisted violations -> shrink + replay
    viol_count = 0
    if unlisted:
        scratch = tempfile.mkdtemp(prefix=f'verif-{mod.ID}-shrink-')
        ctx = Ctx(tier, seed, 0, 1, scratch)
        ctx.stats = Stats()
        try:
            if hasattr(mod, 'setup_shard'):
                mod.setup_shard(ctx)
            for sig, slot in sorted(unlisted.items(), key=lambda kv: -kv[1]['count'])[:3]:
                first = min(slot['cases'], key=lambda c: len(json.dumps(c['case'], default=repr)))
                case = first['case']
                try:
                    if has_sig(mod, case, ctx, slot['symptom'], slot['site']):
                        case = shrink_case(mod, tier, case, slot['symptom'], slot['site'], ctx)
                        reproduced = True
                    else:
                        reproduced = False
                except Exception:
                    reproduced = False
                rp = write_replay(mod.ID, case, slot['symptom'], slot['site'], first['detail'], reproduced)
                lines.append(f'VIOLATION property={mod.ID} replay={rp}')
                lines.append(f'  symptom: {slot["symptom"]} @ {slot["site"]}  ({slot["count"]} cases; reproduced on re-run: {reproduced})')
                lines.append(f'  detail: {first["detail"]}')
                viol_count += slot['count']
            for sig, slot in sorted(unlisted.items(), key=lambda kv: -kv[1]['count'])[3:]:
                first = slot['cases'][0]
                rp = write_replay(mod.ID, first['case'], slot['symptom'], slot['site'], first['detail'], None)
                lines.append(f'VIOLATION property={mod.ID} replay={rp}')
                lines.append(f'  symptom: {slot["symptom"]} @ {slot["site"]}  ({slot["count"]} cases; not shrunk)')
                viol_count += slot['count']
        finally:
            try:
                if hasattr(mod, 'teardown_shard'):
                    mod.teardown_shard(ctx)
            except Exception:
                pass
            shutil.rmtree(scratch, ignore_errors=True)
        exit_code = 1

    # must-be-populated classes
    req = getattr(mod, 'REQUIRED', {}).get(tier, {})
    # the module states the count it normally reaches with seed 1; a run fails (exit 2) when a class falls below A QUARTER of that - the purpose is to
    # notice a generator that has stopped producing a class, not to turn the seed-to-seed variance of a well populated class into an error
    missing = {k: (labels.get(k, 0), max(1, v // 4)) for k, v in req.items() if labels.get(k, 0) < max(1, v // 4)}
    if missing and not errors and skipped == 0:
        errors.append(f'generator statistics below required minimum: {missing}')

    wall = time.monotonic() - t0
    coverage = {
        'evaluations': ev['evaluations'],
        'distinct_nontrivial': len(nontrivial),
        'rule': mod.RULE,
        'samples': samples[:8],
        'classes': dict(sorted(labels.items())),
        'known_finding_hits': dict(known_hits),
        'excluded': dict(excluded),
        'skipped_by_time_budget': skipped,
        'shards': nshards,
    }
    for k, v in extra.items():
        coverage[k] = v
    if fuzz_plan(mod, tier)[0]:
        import re
        covs = []
        for lp in fuzz_logs:
            try:
                with open(lp, 'rb') as f:
                    m = re.findall(rb'cov: (\d+) ft: (\d+) corp: (\d+)', f.read())
                if m:
                    covs.append({'cov': int(m[-1][0]), 'ft': int(m[-1][1]), 'corpus': int(m[-1][2])})
            except OSError:
                pass
        coverage['coverage_guided_stage'] = fuzz_note or {
            'engine': 'atheris/libFuzzer over Hypothesis fuzz_one_input, pyworkers instrumented', 'shards': nfuzz,
            'planned_runs_per_shard': fuzz_runs, 'libfuzzer_last_status': covs}
    if hasattr(mod, 'coverage_extra'):
        coverage.update(mod.coverage_extra(tier, coverage))
    evidence = {
        'property_id': mod.ID, 'tier': tier, 'seed': seed, 'level': mod.LEVEL, 'coverage': coverage,
        'assumptions': list(mod.ASSUMPTIONS), 'wall_s': round(wall, 2), 'violations': viol_count,
    }
    # (VERIF_EVIDENCE_DIR: used by tools/seed_recheck.py only, so that a run against a changed scratch tree never overwrites evidence about /repo)
    evdir = os.environ.get('VERIF_EVIDENCE_DIR')
    if not evdir and os.path.realpath(os.environ.get('VERIF_REPO', '/repo')) != os.path.realpath('/repo'):
        evdir = os.path.join(VERIF, 'replays', '_evidence_of_runs_against_scratch_trees')     # never mistaken for evidence about /repo
    evp = os.path.join(evdir or os.path.join(VERIF, 'evidence'), f'{mod.ID}.json')
    os.makedirs(os.path.dirname(evp), exist_ok=True)
    with open(evp + '.tmp', 'w') as f:
        json.dump(evidence, f, indent=1, default=repr)
    os.replace(evp + '.tmp', evp)
    shutil.rmtree(tmp, ignore_errors=True)

    for l in lines:
        print(l)
    print(f'[{mod.ID}] tier={tier} seed={seed} evaluations={ev["evaluations"]} distinct_nontrivial={len(nontrivial)} '
          f'violations={viol_count} known_finding_hits={sum(known_hits.values())} wall={wall:.1f}s')
    if errors:
        for e in errors:
            print('HARNESS-ERROR: ' + e, file=sys.stderr)
        if exit_code == 0:
            exit_code = 2
    return exit_code


def write_replay(prop_id, case, symptom, site, detail, reproduced):
    d = os.path.join(VERIF, 'replays')
    os.makedirs(d, exist_ok=True)
    h = case_hash({'c': case, 's': symptom, 't': site})
    p = os.path.join(d, f'{prop_id}-{h}.json')
    with open(p, 'w') as f:
        json.dump({'property': prop_id, 'symptom': symptom, 'site': site, 'detail': detail, 'reproduced_on_rerun': reproduced,
                   'case': case}, f, indent=1, default=repr)
    return os.path.relpath(p, VERIF)


def run_replay(mod, path, tier, seed):
    with open(path) as f:
        rc = json.load(f)
    scratch = tempfile.mkdtemp(prefix=f'verif-{mod.ID}-replay-')
    ctx = Ctx(tier, seed, 0, 1, scratch)
    ctx.stats = Stats()
    findings = load_findings(mod.ID)
    code = 0
    try:
        if hasattr(mod, 'setup_shard'):
            mod.setup_shard(ctx)
        out = run_one(mod, rc['case'], ctx)
        print(json.dumps(out.as_dict(), indent=1, default=repr))
        for v in out.violations:
            e = match_finding(findings, mod, rc['case'], out, v)
            if e is not None:
                print(f'KNOWN-FINDING: property={mod.ID} {e["id"]}: {e["what"]}')
            else:
                print(f'VIOLATION property={mod.ID} replay={path}')
                print(f'  symptom: {v["symptom"]} @ {v["site"]}: {v["detail"]}')
                code = 1
    finally:
        try:
            if hasattr(mod, 'teardown_shard'):
                mod.teardown_shard(ctx)
        except Exception:
            pass
        shutil.rmtree(scratch, ignore_errors=True)
    return code
